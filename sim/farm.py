"""
A minimal process farm: one forked process per job, at most N alive.

Every job (a chunk of runs, a shrink attempt, a replay) starts from the state
the driver had when it forked - which never executed any code of the system
under test - so no process-global state of verde/numpy/sklearn can leak from
one job into another.  Results come back through pickle files in a private
directory under /dev/shm (removed afterwards).
"""
import faulthandler
import os
import pickle
import shutil
import signal
import sys
import tempfile
import time
import traceback


class JobFailed(Exception):
    pass


def _child(fn, arg, path, timeout):
    code = 0
    try:
        faulthandler.enable()
        faulthandler.dump_traceback_later(timeout, exit=True)
        res = fn(arg)
        with open(path + ".tmp", "wb") as f:
            pickle.dump(res, f, protocol=pickle.HIGHEST_PROTOCOL)
        os.replace(path + ".tmp", path)
    except BaseException:  # noqa: B902
        code = 3
        try:
            with open(path + ".err", "w") as f:
                traceback.print_exc(file=f)
        except Exception:  # noqa: B902
            pass
    finally:
        sys.stdout.flush()
        sys.stderr.flush()
        os._exit(code)


def farm(fn, args, workers, timeout=900, stop=None):
    """
    Yield (index, result | JobFailed) as jobs finish.  ``stop()`` is polled
    before each new job is started; when it returns True no further job starts.
    """
    root = tempfile.mkdtemp(prefix="verif-farm-", dir="/dev/shm" if os.path.isdir("/dev/shm") else None)
    live = {}  # pid -> (index, path, t0)
    nxt = 0
    try:
        while nxt < len(args) or live:
            while nxt < len(args) and len(live) < workers and not (stop and stop()):
                path = os.path.join(root, f"{nxt}.pkl")
                sys.stdout.flush()
                sys.stderr.flush()
                pid = os.fork()
                if pid == 0:
                    _child(fn, args[nxt], path, timeout)
                live[pid] = (nxt, path, time.monotonic())
                nxt += 1
            if stop and stop() and not live:
                break
            if not live:
                continue
            pid, status = os.waitpid(-1, os.WNOHANG)
            if pid == 0:
                now = time.monotonic()
                for p, (i, path, t0) in list(live.items()):
                    if now - t0 > timeout + 30:
                        os.kill(p, signal.SIGKILL)
                time.sleep(0.002)
                continue
            if pid not in live:
                continue
            i, path, _ = live.pop(pid)
            if os.WIFEXITED(status) and os.WEXITSTATUS(status) == 0 and os.path.exists(path):
                with open(path, "rb") as f:
                    res = pickle.load(f)
                os.unlink(path)
                yield i, res
            else:
                err = ""
                if os.path.exists(path + ".err"):
                    err = open(path + ".err").read()
                yield i, JobFailed(f"job {i} died (status {status}): {err[-3000:]}")
    finally:
        for p in live:
            try:
                os.kill(p, signal.SIGKILL)
                os.waitpid(p, 0)
            except OSError:
                pass
        shutil.rmtree(root, ignore_errors=True)


def isolated(fn, arg, timeout=600):
    """Run fn(arg) in a fresh forked process and return its result (raises JobFailed)."""
    for _, res in farm(fn, [arg], 1, timeout):
        if isinstance(res, JobFailed):
            raise res
        return res
    raise JobFailed("no result")
