"""
Workload pieces shared by the property modules: datasets, estimator specs,
cross-validator specs, scorers.  Everything is drawn from the tape; specs are
plain JSON-able data so that the reference model can build its *own* instances
(never a clone of the object handed to verde) and so that samples can be
written to the evidence file.
"""
import numpy as np


# --------------------------------------------------------------------- data
class Dataset:
    def __init__(self, coordinates, data, weights, desc):
        self.coordinates = coordinates  # tuple of arrays
        self.data = data  # tuple of arrays (always a tuple here)
        self.weights = weights  # None or tuple of arrays
        self.desc = desc

    @property
    def ncomp(self):
        return len(self.data)

    @property
    def n(self):
        return self.data[0].size

    def data_arg(self):
        """The `data` argument as a user would pass it (array for one component)."""
        return self.data[0] if len(self.data) == 1 else self.data

    def weights_arg(self):
        if self.weights is None:
            return None
        return self.weights[0] if len(self.weights) == 1 else self.weights


def _factor(n):
    for r in (5, 4, 3, 2):
        if n % r == 0 and n // r >= 2:
            return (r, n // r)
    return None


def gen_dataset(tape, ncomp=None, nmin=12, nmax=60, allow_2d=True, allow_extra=True, weights=None, tag="D", allow_big=True, n=None):
    if n is None:
        n = tape.randint(nmin, nmax, f"{tag}.n")
        if allow_big and tape.coin(0.05, f"{tag}.big"):
            # size swarm: correctness must not silently depend on small inputs (chunked / approximate / cached paths)
            n = tape.randint(150, 320, f"{tag}.n_big")
    rs = np.random.RandomState(tape.subseed(f"{tag}.seed"))
    if ncomp is None:
        ncomp = tape.weighted([(1, 5), (2, 3), (3, 1)], f"{tag}.ncomp")
    east = rs.uniform(0.0, 100.0, n)
    north = rs.uniform(-60.0, 40.0, n)
    comps = []
    for i in range(ncomp):
        a, b, c = rs.uniform(-2, 2, 3)
        # smooth signal + component specific noise; components differ on purpose
        comp = (
            10 * (i + 1)
            + a * east
            + b * north
            + 20 * c * np.sin(east / (15.0 + 5 * i)) * np.cos(north / 20.0)
            + rs.normal(0, 3.0, n)
        )
        comps.append(comp)
    if weights is None:
        weights = bool(tape.draw(2, f"{tag}.weights"))
    w = tuple(rs.uniform(0.2, 3.0, n) for _ in range(ncomp)) if weights else None
    coords = [east, north]
    if allow_extra and tape.coin(0.15, f"{tag}.extra"):
        coords.append(rs.uniform(0, 10, n))
    shape = None
    if allow_2d and tape.coin(0.3, f"{tag}.2d"):
        shape = _factor(n)
    layout = "C"
    if shape is not None:
        coords = [c.reshape(shape) for c in coords]
        comps = [c.reshape(shape) for c in comps]
        if w is not None:
            w = tuple(i.reshape(shape) for i in w)
        # same logical arrays, other memory layouts: Fortran order, transposed views, or a mix
        layout = tape.weighted([("C", 3), ("F", 1), ("view", 1), ("mixed", 1)], f"{tag}.layout")

        def relayout(a, k):
            if layout == "F" or (layout == "mixed" and k % 2 == 0):
                return np.asfortranarray(a)
            if layout == "view" or (layout == "mixed" and k % 3 == 1):
                return np.ascontiguousarray(a.T).T  # a transposed view of a C array (not C-contiguous)
            return a

        coords = [relayout(c, k) for k, c in enumerate(coords)]
        comps = [relayout(c, k + 1) for k, c in enumerate(comps)]
        if w is not None:
            w = tuple(relayout(i, k + 2) for k, i in enumerate(w))
    desc = {"n": n, "ncomp": ncomp, "weights": bool(weights), "shape": shape, "layout": layout, "ncoords": len(coords)}
    return Dataset(tuple(coords), tuple(comps), w, desc)


# --------------------------------------------------------------- estimators
def _custom_reduction(values, axis=None):
    return np.max(values, axis=axis) * 0.5 + np.min(values, axis=axis) * 0.5


REDUCTIONS = {"mean": np.mean, "median": np.median, "midrange": _custom_reduction, "average": np.average}


def gen_scalar_spec(tape, tag="E", depth=0, allow_nan_models=False, has_w=None):
    """Spec of an estimator for one data component (has_w: whether the data carry weights, if known)."""
    choices = [("trend", 4), ("spline", 4), ("knn", 3)]
    if depth == 0:
        choices.append(("chain", 3))
        if has_w is not None:
            choices.append(("chain_reduce", 2))
    if allow_nan_models:
        choices.append(("linear", 1))
    kind = tape.weighted(choices, f"{tag}.kind")
    if kind == "trend":
        return ["trend", tape.randint(1, 3, f"{tag}.degree")]
    if kind == "spline":
        return ["spline", tape.pick([1e-2, 1e-4, 1.0, 50.0, None], f"{tag}.damping")]
    if kind == "knn":
        return ["knn", tape.randint(1, 5, f"{tag}.k"), tape.pick(["mean", "median", "midrange"], f"{tag}.red")]
    if kind == "linear":
        return ["linear"]
    if kind == "chain_reduce":
        # decimate in blocks first, then fit (BlockReduce needs a weights-aware reduction when weights flow in)
        if tape.draw(2, f"{tag}.blockmean"):
            first = ["blockmean", tape.pick([25.0, 20.0], f"{tag}.spacing"), bool(has_w and tape.draw(2, f"{tag}.unc"))]
        else:
            first = ["blockreduce", "average" if has_w else tape.pick(["mean", "median"], f"{tag}.red"), tape.pick([25.0, 20.0], f"{tag}.spacing")]
        return ["chain", [first, gen_scalar_spec(tape, f"{tag}.s1", depth + 1)]]
    steps = [gen_scalar_spec(tape, f"{tag}.s{i}", depth + 1) for i in range(tape.randint(2, 3, f"{tag}.nsteps"))]
    return ["chain", steps]


def gen_spec(tape, ncomp, tag="E", allow_nan_models=False, has_w=None):
    if ncomp == 1:
        return gen_scalar_spec(tape, tag, allow_nan_models=allow_nan_models, has_w=has_w)
    if ncomp == 2:
        kind = tape.weighted([("vector", 3), ("vspline", 2), ("chainvec", 1)], f"{tag}.vkind")
        if kind == "vspline":
            return ["vspline", tape.pick([1e-2, 1.0, 1e-4], f"{tag}.damping"), tape.pick([0.5, 0.2, 0.8], f"{tag}.poisson")]
        if kind == "chainvec":
            return [
                "chain",
                [
                    ["vector", [["trend", tape.randint(1, 2, f"{tag}.d{i}")] for i in range(2)]],
                    ["vector", [gen_scalar_spec(tape, f"{tag}.c{i}", 1) for i in range(2)]],
                ],
            ]
    return ["vector", [gen_scalar_spec(tape, f"{tag}.c{i}", 1) for i in range(ncomp)]]


def build_estimator(spec):
    import verde as vd

    kind = spec[0]
    if kind == "trend":
        return vd.Trend(degree=spec[1])
    if kind == "spline":
        kw = {}
        if len(spec) > 2 and spec[2] is not None:
            kw["mindist"] = spec[2]  # deprecated fudge factor, still part of SplineCV's grid
        if len(spec) > 3 and spec[3] is not None:
            kw["force_coords"] = tuple(np.array(c, dtype=float) for c in spec[3])
        return vd.Spline(damping=spec[1], **kw)
    if kind == "knn":
        return vd.KNeighbors(k=spec[1], reduction=REDUCTIONS[spec[2]])
    if kind == "linear":
        return vd.Linear()
    if kind == "cubic":
        return vd.Cubic()
    if kind == "vspline":
        return vd.VectorSpline2D(damping=spec[1], poisson=spec[2], mindist=1.0)
    if kind == "vector":
        return vd.Vector([build_estimator(s) for s in spec[1]])
    if kind == "chain":
        return vd.Chain([(f"s{i}", build_estimator(s)) for i, s in enumerate(spec[1])])
    if kind == "blockreduce":
        return vd.BlockReduce(REDUCTIONS[spec[1]], spacing=spec[2])
    if kind == "blockmean":
        return vd.BlockMean(spacing=spec[1], uncertainty=spec[2])
    raise ValueError(f"unknown spec {spec}")


# --------------------------------------------------------- cross-validators
class ListSplitter:
    """
    A hand-written cross-validator (duck-typed, as scikit-learn allows): unequal folds, indices handed
    out as plain Python lists from a lazily consumed generator.
    """

    def __init__(self, n_splits=3, offset=0):
        self.n_splits = n_splits
        self.offset = offset

    def get_n_splits(self, X=None, y=None, groups=None):  # noqa: U100,N803
        return self.n_splits

    def split(self, X, y=None, groups=None):  # noqa: U100,N803
        n = len(X)
        bounds = [0]
        for k in range(self.n_splits):
            # fold sizes grow: 1 : 2 : 3 ... parts of the rows, rotated by offset
            bounds.append(bounds[-1] + (k + 1))
        total = bounds[-1]
        order = [(i + self.offset) % n for i in range(n)]
        for k in range(self.n_splits):
            lo, hi = n * bounds[k] // total, n * bounds[k + 1] // total
            test = sorted(order[lo:hi])
            train = sorted(order[:lo] + order[hi:])
            yield train, test


class BufferedSplitter:
    """
    Hold-out repeated k times; like some hand-written splitters it re-uses ONE permutation buffer and
    yields views of it, refilled for every split.  Fine for any caller that takes its rows before
    asking for the next split (serial verde does); a caller that keeps the index objects for later sees
    only the last split.
    """

    def __init__(self, n_splits=3, seed=0):
        self.n_splits, self.seed = n_splits, seed

    def get_n_splits(self, X=None, y=None, groups=None):  # noqa: U100,N803
        return self.n_splits

    def split(self, X, y=None, groups=None):  # noqa: U100,N803
        n = len(X)
        rs = np.random.RandomState(self.seed)
        buf = np.arange(n)
        ntest = max(n // 3, 2)
        for _ in range(self.n_splits):
            buf[:] = rs.permutation(n)
            yield buf[ntest:], buf[:ntest]


def gen_cv_spec(tape, n, tag="cv"):
    kind = tape.weighted(
        [("default", 3), ("kfold", 2), ("shuffle", 2), ("blockkfold", 2), ("blockshuffle", 2), ("timeseries", 1), ("predefined", 1), ("repeated", 1), ("lists", 1), ("buffered", 1), ("shuffle_rs_instance", 1)],
        f"{tag}.kind",
    )
    if kind == "buffered":
        return ["buffered", tape.randint(2, 4, f"{tag}.k"), tape.draw(100, f"{tag}.seed")]
    if kind == "shuffle_rs_instance":
        # random_state given as a (fresh) RandomState INSTANCE: consumed once per call, wherever splitting happens
        return ["shuffle_rs_instance", tape.randint(2, 4, f"{tag}.k"), tape.pick([0.25, 0.4], f"{tag}.test"), tape.draw(100, f"{tag}.seed")]
    if kind == "timeseries":
        return ["timeseries", tape.randint(2, 3, f"{tag}.k")]
    if kind == "predefined":
        return ["predefined", tape.randint(2, 4, f"{tag}.k"), tape.draw(100, f"{tag}.seed")]
    if kind == "repeated":
        return ["repeated", 2, 2, tape.draw(100, f"{tag}.seed")]
    if kind == "lists":
        return ["lists", tape.randint(2, 3, f"{tag}.k"), tape.draw(7, f"{tag}.offset")]
    if kind == "default":
        return ["default"]
    if kind == "kfold":
        shuffle = bool(tape.draw(2, f"{tag}.shuffle"))
        return ["kfold", tape.randint(2, 5, f"{tag}.k"), shuffle, tape.draw(100, f"{tag}.seed") if shuffle else None]
    if kind == "shuffle":
        return ["shuffle", tape.randint(1, 5, f"{tag}.k"), tape.pick([0.25, 0.4, 0.5], f"{tag}.test"), tape.draw(100, f"{tag}.seed")]
    if kind == "blockkfold":
        shuffle = bool(tape.draw(2, f"{tag}.shuffle"))
        return [
            "blockkfold",
            tape.randint(2, 4, f"{tag}.k"),
            tape.pick([25.0, 20.0, 34.0], f"{tag}.spacing"),
            shuffle,
            tape.draw(100, f"{tag}.seed") if shuffle else None,
            bool(tape.draw(2, f"{tag}.balance")),
        ]
    return [
        "blockshuffle",
        tape.randint(1, 4, f"{tag}.k"),
        tape.pick([25.0, 20.0, 34.0], f"{tag}.spacing"),
        tape.pick([0.3, 0.5], f"{tag}.test"),
        tape.draw(100, f"{tag}.seed"),
    ]


def build_cv(spec):
    import verde as vd
    from sklearn.model_selection import KFold, ShuffleSplit

    kind = spec[0]
    if kind == "default":
        return None
    if kind == "kfold":
        return KFold(n_splits=spec[1], shuffle=spec[2], random_state=spec[3])
    if kind == "shuffle":
        return ShuffleSplit(n_splits=spec[1], test_size=spec[2], random_state=spec[3])
    if kind == "blockkfold":
        return vd.BlockKFold(spacing=spec[2], n_splits=spec[1], shuffle=spec[3], random_state=spec[4], balance=spec[5])
    if kind == "blockshuffle":
        return vd.BlockShuffleSplit(spacing=spec[2], n_splits=spec[1], test_size=spec[3], random_state=spec[4])
    if kind == "timeseries":
        from sklearn.model_selection import TimeSeriesSplit

        return TimeSeriesSplit(n_splits=spec[1])
    if kind == "predefined":
        return _Predefined(spec[1], spec[2])
    if kind == "repeated":
        from sklearn.model_selection import RepeatedKFold

        return RepeatedKFold(n_splits=spec[1], n_repeats=spec[2], random_state=spec[3])
    if kind == "lists":
        return ListSplitter(n_splits=spec[1], offset=spec[2])
    if kind == "buffered":
        return BufferedSplitter(n_splits=spec[1], seed=spec[2])
    if kind == "shuffle_rs_instance":
        return ShuffleSplit(n_splits=spec[1], test_size=spec[2], random_state=np.random.RandomState(spec[3]))
    raise ValueError(spec)


def cv_is_stateful(spec):
    """True if one cross-validator OBJECT legitimately gives other splits on its second use."""
    return spec[0] == "shuffle_rs_instance"


class _Predefined:
    """sklearn's PredefinedSplit needs the fold labels up front; they are derived from the row count at split time."""

    def __init__(self, k, seed):
        self.k, self.seed = k, seed

    def get_n_splits(self, X=None, y=None, groups=None):  # noqa: U100,N803
        return self.k

    def split(self, X, y=None, groups=None):  # noqa: U100,N803
        from sklearn.model_selection import PredefinedSplit

        folds = np.random.RandomState(self.seed).randint(0, self.k, len(X))
        folds[: self.k] = np.arange(self.k)  # every fold occurs
        return PredefinedSplit(folds).split()


def model_cv(spec):
    """The cross-validator the *model* iterates: documented default made explicit."""
    from sklearn.model_selection import KFold

    if spec[0] == "default":
        return KFold(n_splits=5, shuffle=True, random_state=0)
    return build_cv(spec)


# ------------------------------------------------------------------ scorers
def _cube_root_loss(y_true, y_pred, sample_weight=None):
    """A metric sklearn does not know: weighted mean of |error|**1.5."""
    err = np.abs(np.asarray(y_true) - np.asarray(y_pred)) ** 1.5
    return float(np.average(err, weights=sample_weight))


def _plain_scorer(estimator, X, y, sample_weight=None):  # noqa: N803
    """A scorer given as a bare callable(estimator, X, y, sample_weight=None), not built with make_scorer."""
    err = np.abs(np.asarray(y) - np.asarray(estimator.predict(X))) ** 1.5
    return -float(np.average(err, weights=sample_weight))


def _weighted_misfit_sum(y_true, y_pred, sample_weight=None):
    """A metric that is NOT normalised by the weights (chi-square like): sensitive to the scale of the weights it is handed."""
    err = np.abs(np.asarray(y_true) - np.asarray(y_pred)) ** 2
    return float(np.sum(err if sample_weight is None else np.asarray(sample_weight) * err))


SCORINGS = ["none", "r2", "neg_mean_squared_error", "neg_mean_absolute_error", "neg_root_mean_squared_error", "custom", "plain", "custom_sum"]


def gen_scoring(tape, tag="scoring"):
    return tape.weighted([(s, 3 if s in ("none", "custom") else 1 if s in ("plain", "custom_sum") else 2) for s in SCORINGS], tag)


def build_scoring(name):
    if name == "none":
        return None
    if name == "custom":
        from sklearn.metrics import make_scorer

        return make_scorer(_cube_root_loss, greater_is_better=False)
    if name == "plain":
        return _plain_scorer
    if name == "custom_sum":
        from sklearn.metrics import make_scorer

        return make_scorer(_weighted_misfit_sum, greater_is_better=False)
    return name


def metric(name, y, p, w):
    """Ten-line numpy formulas for the metrics (higher is better), one component."""
    y = np.ravel(np.asarray(y, dtype=float))
    p = np.ravel(np.asarray(p, dtype=float))
    w = None if w is None else np.ravel(np.asarray(w, dtype=float))
    if name in ("none", "r2"):
        ybar = np.average(y, weights=w)
        num = np.sum((y - p) ** 2 if w is None else w * (y - p) ** 2)
        den = np.sum((y - ybar) ** 2 if w is None else w * (y - ybar) ** 2)
        return 1.0 - num / den
    if name == "neg_mean_squared_error":
        return -np.average((y - p) ** 2, weights=w)
    if name == "neg_mean_absolute_error":
        return -np.average(np.abs(y - p), weights=w)
    if name == "neg_root_mean_squared_error":
        return -np.sqrt(np.average((y - p) ** 2, weights=w))
    if name in ("custom", "plain"):
        return -np.average(np.abs(y - p) ** 1.5, weights=w)
    if name == "custom_sum":
        return -np.sum((y - p) ** 2 if w is None else w * (y - p) ** 2)
    raise ValueError(name)
