"""
Pre-emption / fault points without touching /repo.

``sys.settrace`` delivers a 'call' event for every Python function entry in the
thread it is installed in.  We look only at frames whose code lives under the
``verde`` package being tested (not its tests) and that are not generator
frames, call a hook there, and return ``None`` so no per-line tracing happens
(numpy / BLAS / sklearn run at full speed).

A hook may *raise*: the exception then propagates out of the verde function
being entered, exactly as if it had been raised by its first statement.  CPython
removes the trace function when it raises, so users re-install it per
operation.
"""
import os
import sys

_GEN_FLAGS = 0x20 | 0x80 | 0x200  # CO_GENERATOR | CO_COROUTINE | CO_ASYNC_GENERATOR


class SimKilled(BaseException):
    """A simulated worker death.  BaseException: `except Exception` must not eat it."""


class SimInterrupt(BaseException):
    """A simulated KeyboardInterrupt / MemoryError at an arbitrary instant."""


def verde_dir():
    import verde

    return os.path.dirname(os.path.abspath(verde.__file__)) + os.sep


_LABEL_CACHE = {}


def code_label(code, root):
    lab = _LABEL_CACHE.get(code)
    if lab is None:
        mod = code.co_filename[len(root):]
        if mod.endswith(".py"):
            mod = mod[:-3]
        mod = mod.replace(os.sep, ".")
        lab = f"{mod}:{code.co_qualname}"
        _LABEL_CACHE[code] = lab
    return lab


def make_tracer(hook, root=None):
    """Return a global trace function calling ``hook(label, frame)`` at every yield point."""
    root = root or verde_dir()
    tests = root + "tests" + os.sep

    def tracer(frame, event, arg):  # noqa: U100
        if event != "call":
            return None
        code = frame.f_code
        fn = code.co_filename
        if not fn.startswith(root) or fn.startswith(tests):
            return None
        if code.co_flags & _GEN_FLAGS:
            return None
        hook(code_label(code, root), frame)
        return None

    return tracer


class CallPoints:
    """
    Use in the *current* thread around one public call:

    >>> with CallPoints(interrupt_at=k) as cp: obj.fit(...)

    counts the yield points of the operation (``cp.count``, ``cp.labels``) and,
    if ``interrupt_at`` is not None, raises SimInterrupt when entering the k-th
    (0-based) one.
    """

    def __init__(self, interrupt_at=None, exc=SimInterrupt, keep_labels=False):
        self.interrupt_at = interrupt_at
        self.exc = exc
        self.count = 0
        self.fired = None
        self.labels = [] if keep_labels else None
        self._prev = None

    def _hook(self, label, frame):  # noqa: U100
        k = self.count
        self.count += 1
        if self.labels is not None:
            self.labels.append(label)
        if self.interrupt_at is not None and k == self.interrupt_at and self.fired is None:
            self.fired = label
            raise self.exc(f"injected at call point {k} ({label})")

    def __enter__(self):
        self._prev = sys.gettrace()
        sys.settrace(make_tracer(self._hook))
        return self

    def __exit__(self, *exc):
        sys.settrace(self._prev)
        return False
