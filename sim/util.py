"""Comparison helpers shared by the property modules."""
import numpy as np


def arrays_of(obj, out=None):
    """All numpy arrays reachable from a result (tuples, lists, dicts, pandas, xarray)."""
    out = [] if out is None else out
    if isinstance(obj, np.ndarray):
        out.append(obj)
    elif isinstance(obj, (tuple, list)):
        for i in obj:
            arrays_of(i, out)
    elif isinstance(obj, dict):
        for k in sorted(obj, key=str):
            arrays_of(obj[k], out)
    else:
        mod = type(obj).__module__
        if mod.startswith("pandas"):
            if hasattr(obj, "columns"):
                for c in obj.columns:
                    out.append(np.asarray(obj[c].values))
            else:
                out.append(np.asarray(obj.values))
        elif mod.startswith("xarray"):
            if hasattr(obj, "data_vars"):
                for k in sorted(obj.data_vars):
                    out.append(np.asarray(obj[k].values))
                for k in sorted(obj.coords):
                    out.append(np.asarray(obj[k].values))
            else:
                out.append(np.asarray(obj.values))
                for k in sorted(obj.coords):
                    out.append(np.asarray(obj[k].values))
    return out


def structure_of(obj):
    """Shape of a result without the numbers (types, names, dims)."""
    if isinstance(obj, np.ndarray):
        return ("nd", obj.shape, obj.dtype.kind)
    if isinstance(obj, (tuple, list)):
        return (type(obj).__name__, tuple(structure_of(i) for i in obj))
    if isinstance(obj, dict):
        return ("dict", tuple((str(k), structure_of(v)) for k, v in sorted(obj.items(), key=lambda kv: str(kv[0]))))
    mod = type(obj).__module__
    if mod.startswith("pandas"):
        return ("pandas", type(obj).__name__, tuple(map(str, getattr(obj, "columns", []))), tuple(obj.shape))
    if mod.startswith("xarray"):
        if hasattr(obj, "data_vars"):
            return ("xr.Dataset", tuple(sorted(obj.data_vars)), tuple(sorted(obj.coords)), tuple(sorted((k, v) for k, v in obj.sizes.items())))
        return ("xr.DataArray", obj.name, tuple(obj.dims), tuple(obj.shape), tuple(sorted(obj.coords)))
    if isinstance(obj, (float, np.floating)):
        return ("float",)
    if isinstance(obj, (int, np.integer, bool, np.bool_)):
        return ("int", int(obj))
    if obj is None:
        return ("none",)
    if isinstance(obj, str):
        return ("str", obj)
    return ("obj", type(obj).__name__)


def scalars_of(obj, out=None):
    out = [] if out is None else out
    if isinstance(obj, (float, np.floating)):
        out.append(float(obj))
    elif isinstance(obj, (tuple, list)):
        for i in obj:
            scalars_of(i, out)
    elif isinstance(obj, dict):
        for k in sorted(obj, key=str):
            scalars_of(obj[k], out)
    return out


def same_result(a, b, rtol=1e-12, scale=None):
    """
    a == b as results: identical structure, integer/bool/str arrays exactly,
    float arrays within rtol of their scale (NaNs in the same places).
    Returns (ok, maxdiff_relative).
    """
    if structure_of(a) != structure_of(b):
        return False, float("inf")
    xa, xb = arrays_of(a), arrays_of(b)
    if len(xa) != len(xb):
        return False, float("inf")
    worst = 0.0
    for p, q in zip(xa, xb):
        if p.shape != q.shape:
            return False, float("inf")
        if p.dtype.kind in "fc" or q.dtype.kind in "fc":
            p = np.asarray(p, dtype=float)
            q = np.asarray(q, dtype=float)
            if not np.array_equal(np.isnan(p), np.isnan(q)):
                return False, float("inf")
            m = ~np.isnan(p)
            if not m.any():
                continue
            if not np.array_equal(np.isinf(p[m]), np.isinf(q[m])) or not np.array_equal(p[m][np.isinf(p[m])], q[m][np.isinf(q[m])]):
                return False, float("inf")
            fin = m & np.isfinite(p) & np.isfinite(q)
            if not fin.any():
                continue
            s = scale if scale is not None else max(float(np.max(np.abs(q[fin]))), 1e-300)
            d = float(np.max(np.abs(p[fin] - q[fin]))) / s
            worst = max(worst, d)
            if d > rtol:
                return False, worst
        elif p.dtype.kind == "O" or q.dtype.kind == "O":
            if [repr(i) for i in p.ravel()] != [repr(i) for i in q.ravel()]:
                return False, float("inf")
        else:
            if not np.array_equal(p, q):
                return False, float("inf")
    sa, sb = scalars_of(a), scalars_of(b)
    for p, q in zip(sa, sb):
        if np.isnan(p) and np.isnan(q):
            continue
        s = scale if scale is not None else max(abs(q), 1e-300)
        d = abs(p - q) / s
        worst = max(worst, d)
        if not d <= rtol:
            return False, worst
    return True, worst


def freeze(v):
    """Hashable, comparable deep picture of parameters / small objects."""
    if isinstance(v, np.ndarray):
        return ("nd", v.shape, str(v.dtype), v.tobytes())
    if isinstance(v, (list, tuple)):
        return (type(v).__name__, tuple(freeze(i) for i in v))
    if isinstance(v, dict):
        return ("dict", tuple((str(k), freeze(x)) for k, x in sorted(v.items(), key=lambda kv: str(kv[0]))))
    if hasattr(v, "get_params") and hasattr(v, "__dict__"):
        return ("est", type(v).__name__, tuple((k, freeze(x)) for k, x in sorted(vars(v).items())))
    if callable(v):
        return ("fn", getattr(v, "__name__", repr(type(v))))
    return ("v", repr(v))


def freeze_params(est):
    """Constructor parameters only (recursively through nested estimators), never fitted state."""
    return ("est", type(est).__name__, tuple((k, _freeze_param(v)) for k, v in sorted(est.get_params(deep=False).items())))


def _freeze_param(v):
    if hasattr(v, "get_params") and not isinstance(v, type):
        return freeze_params(v)
    if isinstance(v, (list, tuple)):
        return (type(v).__name__, tuple(_freeze_param(i) for i in v))
    if isinstance(v, dict):
        return ("dict", tuple((str(k), _freeze_param(x)) for k, x in sorted(v.items(), key=lambda kv: str(kv[0]))))
    return freeze(v)


class ArgGuard:
    """Snapshotted argument arrays (read-only or writable): purity is checked after every operation."""

    def __init__(self):
        self.items = []

    def add(self, arr, readonly=True):
        arr = np.asarray(arr)
        if readonly:
            try:
                arr.setflags(write=False)
            except ValueError:
                pass
        self.items.append((arr, arr.tobytes(), arr.shape, arr.dtype, bool(arr.flags.writeable)))
        return arr

    def add_all(self, arrs, readonly=True):
        return tuple(self.add(a, readonly) for a in arrs)

    def changed(self):
        bad = []
        for i, (a, raw, shape, dtype, writeable) in enumerate(self.items):
            if a.shape != shape or a.dtype != dtype or a.tobytes() != raw:
                bad.append(i)
            elif bool(a.flags.writeable) != writeable:
                bad.append(i)  # somebody flipped the flag
        return bad
