"""
Tape minimisation (delta debugging over the recorded draws).

Because workload, schedule and faults all come from the one tape, one shrinker
reduces operations, sizes, interleavings and faults together.  A candidate is
kept only if it still produces the *same violation class* (oracle name).
"""
import time

from .sched import Violation
from .tape import Tape


def attempt(run, values):
    """Execute *run* on a replay tape.  Returns (oracle or None, tape, violation)."""
    tape = Tape(replay=values)
    try:
        run(tape)
    except Violation as v:
        return v.oracle, tape, v
    except Exception:  # noqa: B902 - a candidate tape that breaks the harness is simply not kept
        return None, tape, None
    return None, tape, None


def shrink(run, values, oracle, max_runs=300, max_seconds=90.0):
    t0 = time.monotonic()
    best = list(values)
    runs = 0

    def still_fails(cand):
        nonlocal runs
        runs += 1
        got, tape, _ = attempt(run, cand)
        if got == oracle:
            # normalise: what the run actually consumed (drops unread tail, clamps)
            return list(tape.values)
        return None

    def budget():
        return runs < max_runs and time.monotonic() - t0 < max_seconds

    first = still_fails(best)
    if first is None:
        return best, runs, False  # not reproducible (should not happen: replay is exact)
    best = first
    improved = True
    while improved and budget():
        improved = False
        # 1. delete chunks
        size = max(len(best) // 2, 1)
        while size >= 1 and budget():
            i = 0
            while i < len(best) and budget():
                cand = best[:i] + best[i + size:]
                got = still_fails(cand)
                if got is not None and len(got) <= len(best) and got != best:
                    best = got
                    improved = True
                else:
                    i += size
            size //= 2
        # 2. zero chunks
        size = max(len(best) // 2, 1)
        while size >= 1 and budget():
            for i in range(0, len(best), size):
                if not budget():
                    break
                if all(v == 0 for v in best[i:i + size]):
                    continue
                cand = best[:i] + [0] * len(best[i:i + size]) + best[i + size:]
                got = still_fails(cand)
                if got is not None and _simpler(got, best):
                    best = got
                    improved = True
            size //= 2
        # 3. lower single values
        for i in range(len(best)):
            if not budget():
                break
            v = best[i] if i < len(best) else 0
            for nv in sorted({0, 1, v // 2, v - 1}):
                if not (0 <= nv < v) or not budget():
                    continue
                if i >= len(best):
                    break
                cand = list(best)
                cand[i] = nv
                got = still_fails(cand)
                if got is not None and _simpler(got, best):
                    best = got
                    improved = True
                    break
    return best, runs, True


def _simpler(a, b):
    return (len(a), sum(a)) < (len(b), sum(b))
