"""
Tape minimisation (delta debugging over the recorded draws).

Because workload, schedule and faults all come from the one tape, one shrinker
reduces operations, sizes, interleavings and faults together.  A candidate is
kept only if it still produces the *same violation class* (oracle name).
Every attempt runs in a fresh forked process (farm.isolated), exactly like a
replay, so the result never depends on what earlier attempts left behind.
"""
import time

from .farm import JobFailed, isolated
from .sched import Violation
from .tape import Tape


def _attempt_job(arg):
    run, prelude, values = arg
    for p in prelude:
        try:
            run(Tape(replay=p))
        except Exception:  # noqa: B902 - only the state it leaves behind matters
            pass
    tape = Tape(replay=values)
    out = {"oracle": None, "detail": None, "key": None, "trace": None}
    try:
        run(tape)
    except Violation as v:
        out = {"oracle": v.oracle, "detail": str(v.detail), "key": v.key, "trace": getattr(v, "trace", None)}
    except Exception:  # noqa: B902 - a candidate tape that breaks the harness is simply not kept
        pass
    out["values"] = list(tape.values)
    out["decoded"] = tape.decoded()
    return out


def attempt(run, values, prelude=()):
    try:
        return isolated(_attempt_job, (run, list(prelude), list(values)), timeout=300)
    except JobFailed:
        return {"oracle": None, "detail": None, "key": None, "trace": None, "values": list(values), "decoded": []}


def shrink_prelude(run, prelude, values, oracle, max_runs=60):
    """Find a small list of earlier tapes after which *values* fails with *oracle*."""
    prelude = list(prelude)
    if attempt(run, values, prelude)["oracle"] != oracle:
        return prelude, False
    runs = 0
    i = 0
    # drop from the front first (old runs matter least), one at a time
    while i < len(prelude) and runs < max_runs:
        cand = prelude[:i] + prelude[i + 1:]
        runs += 1
        if attempt(run, values, cand)["oracle"] == oracle:
            prelude = cand
        else:
            i += 1
    return prelude, True


def shrink(run, values, oracle, max_runs=300, max_seconds=120.0, prelude=()):
    t0 = time.monotonic()
    best = list(values)
    runs = 0

    def still_fails(cand):
        nonlocal runs
        runs += 1
        got = attempt(run, cand, prelude)
        if got["oracle"] == oracle:
            # normalise: what the run actually consumed (drops unread tail, clamps)
            return got["values"]
        return None

    def budget():
        return runs < max_runs and time.monotonic() - t0 < max_seconds

    first = still_fails(best)
    if first is None:
        return best, runs, False
    best = first
    improved = True
    while improved and budget():
        improved = False
        # 1. delete chunks
        size = max(len(best) // 2, 1)
        while size >= 1 and budget():
            i = 0
            while i < len(best) and budget():
                cand = best[:i] + best[i + size:]
                got = still_fails(cand)
                if got is not None and len(got) <= len(best) and got != best:
                    best = got
                    improved = True
                else:
                    i += size
            size //= 2
        # 2. zero chunks
        size = max(len(best) // 2, 1)
        while size >= 1 and budget():
            for i in range(0, len(best), size):
                if not budget():
                    break
                if all(v == 0 for v in best[i:i + size]):
                    continue
                cand = best[:i] + [0] * len(best[i:i + size]) + best[i + size:]
                got = still_fails(cand)
                if got is not None and _simpler(got, best):
                    best = got
                    improved = True
            size //= 2
        # 3. lower single values
        for i in range(len(best)):
            if not budget():
                break
            v = best[i] if i < len(best) else 0
            for nv in sorted({0, 1, v // 2, v - 1}):
                if not (0 <= nv < v) or not budget():
                    continue
                if i >= len(best):
                    break
                cand = list(best)
                cand[i] = nv
                got = still_fails(cand)
                if got is not None and _simpler(got, best):
                    best = got
                    improved = True
                    break
    return best, runs, True


def _simpler(a, b):
    return (len(a), sum(a)) < (len(b), sum(b))
