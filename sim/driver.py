"""
Driver: seeded batches of simulated runs over 16 forked processes, shrinking,
replay files, evidence, known findings, determinism self-test.

Exit codes: 0 property held on everything explored; 1 VIOLATION printed;
2 harness error (never prints VIOLATION, never exits 0).
"""
import argparse
import faulthandler
import hashlib
import importlib
import json
import multiprocessing
import os
import subprocess
import sys
import time
import traceback
from concurrent.futures import ProcessPoolExecutor, as_completed

VERIF = os.path.dirname(os.path.dirname(os.path.abspath(__file__)))
PROPS = {"C06": "sim.props.c06", "C12": "sim.props.c12", "C19": "sim.props.c19", "C20": "sim.props.c20"}


def setup_path():
    repo = os.environ.get("VERIF_REPO", "/repo")
    repo = os.path.abspath(repo)
    if VERIF not in sys.path:
        sys.path.insert(0, VERIF)
    sys.path.insert(0, repo)
    import verde

    if not os.path.abspath(verde.__file__).startswith(repo + os.sep):
        raise SystemExit(f"HARNESS-ERROR: verde imported from {verde.__file__}, expected under {repo}")
    return repo


def load(prop):
    return importlib.import_module(PROPS[prop])


# ------------------------------------------------------------------ one run
def one_run(mod, seed=None, replay=None, opts=None):
    """Returns dict(outcome='ok'|'violation'|'harness', ...)."""
    from .sched import HarnessError, Violation
    from .tape import Tape

    tape = Tape(seed=seed) if replay is None else Tape(replay=replay)
    try:
        res = mod.run(tape, opts or {})
        res["outcome"] = "ok"
    except Violation as v:
        res = {
            "outcome": "violation",
            "oracle": v.oracle,
            "detail": str(v.detail),
            "key": v.key,
            "trace": getattr(v, "trace", None),
        }
    except HarnessError as e:
        res = {"outcome": "harness", "error": f"HarnessError: {e}", "tb": traceback.format_exc()}
    except Exception as e:  # noqa: B902
        res = {"outcome": "harness", "error": f"{type(e).__name__}: {e}", "tb": traceback.format_exc()}
    res["tape"] = list(tape.values)
    res["tape_digest"] = tape.digest()
    res["seed"] = seed
    return res


def run_digest(res):
    core = {
        "tape": res["tape_digest"],
        "outcome": res["outcome"],
        "oracle": res.get("oracle"),
        "log": res.get("log_digest"),
        "steps": res.get("steps"),
        "yields": res.get("yields"),
        "inter": res.get("interleaving"),
        "obs": res.get("obs_digest"),
    }
    return hashlib.sha256(json.dumps(core, sort_keys=True).encode()).hexdigest()[:16]


# ------------------------------------------------------------------- chunks
def _chunk(args):
    prop, base_seed, indices, deadline, opts = args
    faulthandler.dump_traceback_later(900, exit=True)
    from .tape import derive_seed

    mod = load(prop)
    agg = new_agg()
    for idx in indices:
        if time.monotonic() > deadline:
            agg["skipped"] += 1
            continue
        seed = derive_seed(base_seed, prop, idx)
        res = one_run(mod, seed=seed, opts=opts)
        fold(agg, res, idx)
    faulthandler.cancel_dump_traceback_later()
    return agg


def new_agg():
    return {
        "runs": 0,
        "skipped": 0,
        "steps": 0,
        "yields": 0,
        "fired": {},
        "probes": {},
        "ops": {},
        "states": set(),
        "interleavings": set(),
        "cases": set(),
        "nontrivial_cases": set(),
        "samples": [],
        "violations": [],
        "harness": [],
        "digests": {},
        "extra": {},
        "maxdiff": {},
    }


def fold(agg, res, idx):
    agg["runs"] += 1
    if res["outcome"] == "violation":
        agg["violations"].append({"index": idx, **{k: res[k] for k in ("seed", "oracle", "detail", "key", "tape", "trace")}})
        return
    if res["outcome"] == "harness":
        agg["harness"].append({"index": idx, "seed": res["seed"], "error": res["error"], "tb": res["tb"]})
        return
    agg["steps"] += res.get("steps", 0)
    agg["yields"] += res.get("yields", 0)
    for k, v in res.get("fired", {}).items():
        agg["fired"][k] = agg["fired"].get(k, 0) + v
    for k, v in res.get("probes", {}).items():
        agg["probes"][k] = agg["probes"].get(k, 0) + v
    for k, v in res.get("extra", {}).items():
        agg["extra"][k] = agg["extra"].get(k, 0) + v
    for k, v in res.get("maxdiff", {}).items():
        agg["maxdiff"][k] = max(agg["maxdiff"].get(k, 0.0), v)
    op = res.get("op", "run")
    agg["ops"][op] = agg["ops"].get(op, 0) + 1
    if len(agg["states"]) < 2_000_000:
        agg["states"] |= res.get("states", set())
    if res.get("interleaving") is not None:
        agg["interleavings"].add(res["interleaving"])
    case = int(res["tape_digest"], 16)
    agg["cases"].add(case)
    if res.get("nontrivial", True):
        agg["nontrivial_cases"].add(case)
    if len(agg["samples"]) < 2 and res.get("sample") is not None:
        agg["samples"].append({"index": idx, "seed": res["seed"], "case": res["sample"]})
    agg["digests"][idx] = run_digest(res)


def merge(a, b):
    for k in ("runs", "skipped", "steps", "yields"):
        a[k] += b[k]
    for k in ("fired", "probes", "ops", "extra"):
        for kk, v in b[k].items():
            a[k][kk] = a[k].get(kk, 0) + v
    for kk, v in b["maxdiff"].items():
        a["maxdiff"][kk] = max(a["maxdiff"].get(kk, 0.0), v)
    for k in ("states", "interleavings", "cases", "nontrivial_cases"):
        a[k] |= b[k]
    a["samples"] += b["samples"]
    a["violations"] += b["violations"]
    a["harness"] += b["harness"]
    a["digests"].update(b["digests"])


def batch(prop, base_seed, n_runs, wall, workers, opts=None, chunk=None, stop_on_violation=True):
    chunk = chunk or max(1, min(25, n_runs // (workers * 4) or 1))
    deadline = time.monotonic() + wall
    jobs = [
        (prop, base_seed, list(range(i, min(i + chunk, n_runs))), deadline, opts or {})
        for i in range(0, n_runs, chunk)
    ]
    agg = new_agg()
    if workers <= 1:
        for j in jobs:
            merge(agg, _chunk(j))
            if stop_on_violation and (agg["violations"] or agg["harness"]):
                break
        return agg
    ctx = multiprocessing.get_context("fork")
    with ProcessPoolExecutor(max_workers=workers, mp_context=ctx) as pool:
        futs = [pool.submit(_chunk, j) for j in jobs]
        try:
            for f in as_completed(futs, timeout=wall + 600):
                merge(agg, f.result())
                if stop_on_violation and (agg["violations"] or agg["harness"]):
                    for g in futs:
                        g.cancel()
                    break
        except Exception as e:  # noqa: B902 - broken pool / timeout: harness error
            agg["harness"].append({"index": -1, "seed": None, "error": f"pool: {type(e).__name__}: {e}", "tb": traceback.format_exc()})
            for g in futs:
                g.cancel()
    return agg


# --------------------------------------------------------- findings / replay
def load_known():
    path = os.path.join(VERIF, "known_findings.json")
    if not os.path.exists(path):
        return []
    with open(path) as f:
        return json.load(f).get("findings", [])


def known_match(prop, v, known):
    for k in known:
        if k.get("status") != "open" or k.get("property") != prop:
            continue
        if k.get("key") and k["key"] == v.get("key"):
            return k
    return None


def write_replay(prop, mod, v, base_seed):
    from .shrink import attempt, shrink

    tape, runs, ok = shrink(lambda t: mod.run(t, {}), v["tape"], v["oracle"])
    oracle, t2, viol = attempt(lambda t: mod.run(t, {}), tape)
    os.makedirs(os.path.join(VERIF, "replays"), exist_ok=True)
    path = os.path.join(VERIF, "replays", f"{prop}-{v['seed']}.json")
    doc = {
        "property": prop,
        "verif_seed": base_seed,
        "run_index": v["index"],
        "run_seed": v["seed"],
        "oracle": oracle or v["oracle"],
        "detail": str(viol.detail) if viol is not None else v["detail"],
        "key": v.get("key"),
        "tape": tape,
        "tape_decoded": t2.decoded(),
        "original_tape_length": len(v["tape"]),
        "shrink_runs": runs,
        "shrunk_reproduces": bool(ok and oracle == v["oracle"]),
        "trace": getattr(viol, "trace", None) if viol is not None else v.get("trace"),
        "replay_cmd": f"bin/check {prop} --replay {path}",
    }
    with open(path, "w") as f:
        json.dump(doc, f, indent=1, default=str)
    return path


def do_replay(prop, path):
    mod = load(prop)
    with open(path) as f:
        doc = json.load(f)
    res = one_run(mod, replay=doc["tape"])
    if res["outcome"] == "violation":
        same = res["oracle"] == doc["oracle"]
        print(f"replayed: oracle={res['oracle']} ({'same' if same else 'DIFFERENT from recorded ' + doc['oracle']})")
        print(f"detail: {res['detail']}")
        print(f"VIOLATION property={prop} replay={path}")
        return 1
    if res["outcome"] == "harness":
        print("HARNESS-ERROR during replay:", res["error"])
        print(res["tb"])
        return 2
    print(f"replay of {path}: no violation on this tree")
    return 0


# ------------------------------------------------------------------ evidence
def write_evidence(prop, mod, tier, base_seed, agg, wall_s, n_known, planned):
    runs_ok = agg["runs"] - len(agg["violations"]) - len(agg["harness"])
    cov = {
        "evaluations": agg["runs"],
        "distinct_nontrivial": len(agg["nontrivial_cases"]),
        "rule": mod.RULE,
        "samples": agg["samples"][:6],
        "runs_planned": planned,
        "runs_completed_ok": runs_ok,
        "runs_skipped_wall_cap": agg["skipped"],
        "runs_per_hour": int(agg["runs"] / max(wall_s, 1e-9) * 3600),
        "seeds_per_hour": int(agg["runs"] / max(wall_s, 1e-9) * 3600),
        "simulated_time": {
            "unit": "logical steps (verde has no clock, timer or timeout; nothing reads simulated wall time)",
            "scheduler_steps": agg["steps"],
            "yield_points_passed": agg["yields"],
        },
        "operations": dict(sorted(agg["ops"].items())),
        "faults_fired": dict(sorted(agg["fired"].items())),
        "probes_hit": dict(sorted(agg["probes"].items())),
        "distinct_interleavings": len(agg["interleavings"]),
        "distinct_interleavings_measure": "distinct digests of the per-run sequence (actor picked, label where it parked or how it ended)",
        "distinct_abstract_states": len(agg["states"]),
        "distinct_abstract_states_measure": "distinct (unfinished task, status, last yield label)* + chosen actor, hashed; capped at 2M per process",
        "distinct_cases": len(agg["cases"]),
        "max_numeric_discrepancy": agg["maxdiff"],
        "extra": dict(sorted(agg["extra"].items())),
        "components": mod.COMPONENTS,
        "known_findings_reproduced": n_known,
        "exhaustive": False,
    }
    doc = {
        "property_id": prop,
        "tier": tier,
        "seed": int(base_seed),
        "level": mod.LEVEL,
        "coverage": cov,
        "assumptions": mod.ASSUMPTIONS,
        "wall_s": round(wall_s, 2),
        "violations": len(agg["violations"]) - n_known,
    }
    os.makedirs(os.path.join(VERIF, "evidence"), exist_ok=True)
    path = os.path.join(VERIF, "evidence", f"{prop}.json")
    tmp = path + ".tmp"
    with open(tmp, "w") as f:
        json.dump(doc, f, indent=1, default=str, sort_keys=False)
    os.replace(tmp, path)
    return path


# --------------------------------------------------------------- self-tests
def selftest_determinism(prop, base_seed, n, workers):
    """Same seeds twice in process, then in fresh interpreters under other hash seeds / worker counts."""
    a = batch(prop, base_seed, n, 3600, workers, stop_on_violation=False)
    b = batch(prop, base_seed, n, 3600, max(1, workers // 3), stop_on_violation=False, chunk=7)
    bad = [i for i in a["digests"] if a["digests"][i] != b["digests"].get(i)]
    print(f"in-process: {len(a['digests'])} seeds x2 at {workers} and {max(1, workers // 3)} workers, {len(bad)} digest mismatches")
    ok = not bad and len(a["digests"]) == len(b["digests"]) and not a["harness"]
    if a["harness"]:
        print("harness errors:", a["harness"][:2])
    for hs in ("1", "77"):
        env = dict(os.environ, PYTHONHASHSEED=hs, VERIF_SEED=str(base_seed))
        out = subprocess.run(
            [sys.executable, "-m", "sim", prop, "--digests", str(n), "--workers", str(workers)],
            env=env, cwd=VERIF, capture_output=True, text=True, timeout=3600,
        )
        try:
            other = {int(k): v for k, v in json.loads(out.stdout.strip().splitlines()[-1]).items()}
        except Exception:  # noqa: B902
            print("fresh interpreter failed:", out.stdout[-500:], out.stderr[-2000:])
            ok = False
            continue
        bad2 = [i for i in a["digests"] if a["digests"][i] != other.get(i)]
        print(f"fresh interpreter PYTHONHASHSEED={hs}: {len(other)} seeds, {len(bad2)} digest mismatches {bad2[:5]}")
        ok = ok and not bad2 and len(other) == len(a["digests"])
    print("DETERMINISM", "OK" if ok else "FAILED")
    return 0 if ok else 2


# ---------------------------------------------------------------------- main
def main(argv=None):
    ap = argparse.ArgumentParser(prog="check")
    ap.add_argument("prop", choices=sorted(PROPS))
    ap.add_argument("--tier", default=os.environ.get("VERIF_TIER", "quick"), choices=["quick", "thorough"])
    ap.add_argument("--replay")
    ap.add_argument("--selftest", choices=["determinism"])
    ap.add_argument("--digests", type=int)
    ap.add_argument("--runs", type=int)
    ap.add_argument("--wall", type=float)
    ap.add_argument("--workers", type=int, default=int(os.environ.get("VERIF_WORKERS", "0")) or min(16, os.cpu_count() or 1))
    ap.add_argument("--no-evidence", action="store_true")
    args = ap.parse_args(argv)
    try:
        base_seed = int(os.environ.get("VERIF_SEED", "0") or 0)
    except ValueError:
        base_seed = int.from_bytes(hashlib.sha256(os.environ["VERIF_SEED"].encode()).digest()[:6], "big")
    try:
        repo = setup_path()
        mod = load(args.prop)
    except SystemExit:
        raise
    except Exception:  # noqa: B902
        traceback.print_exc()
        print("HARNESS-ERROR: cannot import the system under test / the property module")
        return 2
    prop = args.prop
    print(f"property={prop} tier={args.tier} VERIF_SEED={base_seed} repo={repo} PYTHONHASHSEED={os.environ.get('PYTHONHASHSEED')} workers={args.workers}")
    if args.replay:
        return do_replay(prop, args.replay)
    if args.digests:
        agg = batch(prop, base_seed, args.digests, 3600, args.workers, stop_on_violation=False)
        print(json.dumps({str(k): v for k, v in sorted(agg["digests"].items())}))
        return 0
    if args.selftest:
        return selftest_determinism(prop, base_seed, args.runs or 200, args.workers)

    plan = mod.TIERS[args.tier]
    n_runs = args.runs or plan["runs"]
    wall = args.wall or plan["wall"]
    t0 = time.monotonic()
    agg = batch(prop, base_seed, n_runs, wall, args.workers, opts={"tier": args.tier})
    wall_s = time.monotonic() - t0
    if agg["harness"]:
        h = agg["harness"][0]
        print(f"HARNESS-ERROR run index={h['index']} seed={h['seed']}: {h['error']}")
        print(h["tb"])
        return 2
    known = load_known()
    rc = 0
    n_known = 0
    reported_known = set()
    new = []
    for v in sorted(agg["violations"], key=lambda x: x["index"]):
        k = known_match(prop, v, known)
        if k is not None:
            n_known += 1
            if k["key"] not in reported_known:
                reported_known.add(k["key"])
                print(f"KNOWN-FINDING: property={prop} {k['what']}")
            continue
        new.append(v)
    for v in new[:3]:
        path = write_replay(prop, mod, v, base_seed)
        print(f"violation: oracle={v['oracle']} run_index={v['index']} seed={v['seed']}")
        print(f"  {v['detail'][:600]}")
        print(f"VIOLATION property={prop} replay={path}")
        rc = 1
    if not args.no_evidence:
        path = write_evidence(prop, mod, args.tier, base_seed, agg, wall_s, n_known, n_runs)
        print(f"evidence: {path}")
    ok_runs = agg["runs"] - len(agg["violations"])
    print(
        f"runs={agg['runs']} ok={ok_runs} skipped={agg['skipped']} steps={agg['steps']} yields={agg['yields']} "
        f"interleavings={len(agg['interleavings'])} states={len(agg['states'])} wall={wall_s:.1f}s"
    )
    print("faults fired:", json.dumps(dict(sorted(agg["fired"].items()))))
    if rc == 0 and agg["runs"] == 0:
        print("HARNESS-ERROR: nothing was run")
        return 2
    return rc


if __name__ == "__main__":
    sys.exit(main())
