"""
Driver: seeded batches of simulated runs over 16 forked processes, shrinking,
replay files, evidence, known findings, determinism self-test.

Exit codes: 0 property held on everything explored; 1 VIOLATION printed;
2 harness error (never prints VIOLATION, never exits 0).
"""
import argparse
import hashlib
import importlib
import json
import os
import subprocess
import sys
import time
import traceback

VERIF = os.path.dirname(os.path.dirname(os.path.abspath(__file__)))
PROPS = {"C06": "sim.props.c06", "C12": "sim.props.c12", "C19": "sim.props.c19", "C20": "sim.props.c20"}


def setup_path():
    repo = os.environ.get("VERIF_REPO", "/repo")
    repo = os.path.abspath(repo)
    if VERIF not in sys.path:
        sys.path.insert(0, VERIF)
    sys.path.insert(0, repo)
    import verde

    if not os.path.abspath(verde.__file__).startswith(repo + os.sep):
        raise SystemExit(f"HARNESS-ERROR: verde imported from {verde.__file__}, expected under {repo}")
    return repo


def load(prop):
    return importlib.import_module(PROPS[prop])


# ------------------------------------------------------------------ one run
def one_run(mod, seed=None, replay=None, opts=None):
    """Returns dict(outcome='ok'|'violation'|'harness', ...)."""
    from .sched import HarnessError, Violation
    from .tape import Tape

    tape = Tape(seed=seed) if replay is None else Tape(replay=replay)
    try:
        res = mod.run(tape, opts or {})
        res["outcome"] = "ok"
    except Violation as v:
        res = {
            "outcome": "violation",
            "oracle": v.oracle,
            "detail": str(v.detail),
            "key": v.key,
            "trace": getattr(v, "trace", None),
        }
    except HarnessError as e:
        res = {"outcome": "harness", "error": f"HarnessError: {e}", "tb": traceback.format_exc()}
    except Exception as e:  # noqa: B902
        res = {"outcome": "harness", "error": f"{type(e).__name__}: {e}", "tb": traceback.format_exc()}
    res["tape"] = list(tape.values)
    res["tape_digest"] = tape.digest()
    res["seed"] = seed
    return res


def run_digest(res):
    core = {
        "tape": res["tape_digest"],
        "outcome": res["outcome"],
        "oracle": res.get("oracle"),
        "log": res.get("log_digest"),
        "steps": res.get("steps"),
        "yields": res.get("yields"),
        "inter": res.get("interleaving"),
        "obs": res.get("obs_digest"),
    }
    return hashlib.sha256(json.dumps(core, sort_keys=True).encode()).hexdigest()[:16]


# ------------------------------------------------------------------- chunks
def _chunk(args):
    prop, base_seed, indices, deadline, opts = args
    from .tape import derive_seed

    mod = load(prop)
    agg = new_agg()
    earlier = []  # tapes of the runs executed before, in this (fresh) process
    for idx in indices:
        if time.monotonic() > deadline:
            agg["skipped"] += 1
            continue
        seed = derive_seed(base_seed, prop, idx)
        res = one_run(mod, seed=seed, opts=opts)
        if res["outcome"] == "violation":
            res["prelude"] = list(earlier)
        fold(agg, res, idx)
        earlier.append(res["tape"])
    return agg


def new_agg():
    return {
        "runs": 0,
        "evaluations": 0,
        "skipped": 0,
        "steps": 0,
        "yields": 0,
        "fired": {},
        "probes": {},
        "ops": {},
        "states": set(),
        "interleavings": set(),
        "cases": set(),
        "nontrivial_cases": set(),
        "samples": [],
        "violations": [],
        "harness": [],
        "digests": {},
        "extra": {},
        "maxdiff": {},
    }


def fold(agg, res, idx):
    agg["runs"] += 1
    if res["outcome"] == "violation":
        agg["violations"].append({"index": idx, **{k: res.get(k) for k in ("seed", "oracle", "detail", "key", "tape", "trace", "prelude")}})
        return
    if res["outcome"] == "harness":
        agg["harness"].append({"index": idx, "seed": res["seed"], "error": res["error"], "tb": res["tb"]})
        return
    agg["steps"] += res.get("steps", 0)
    agg["yields"] += res.get("yields", 0)
    for k, v in res.get("fired", {}).items():
        agg["fired"][k] = agg["fired"].get(k, 0) + v
    for k, v in res.get("probes", {}).items():
        agg["probes"][k] = agg["probes"].get(k, 0) + v
    for k, v in res.get("extra", {}).items():
        agg["extra"][k] = agg["extra"].get(k, 0) + v
    for k, v in res.get("maxdiff", {}).items():
        agg["maxdiff"][k] = max(agg["maxdiff"].get(k, 0.0), v)
    op = res.get("op", "run")
    agg["ops"][op] = agg["ops"].get(op, 0) + 1
    if len(agg["states"]) < 2_000_000:
        agg["states"] |= res.get("states", set())
    if res.get("interleaving") is not None:
        agg["interleavings"].add(res["interleaving"])
    if res.get("case_sets") is not None:
        # the property counts finer-grained cases than "one tape" (e.g. one load operation)
        cases, nontrivial = res["case_sets"]
        agg["cases"] |= cases
        agg["nontrivial_cases"] |= nontrivial
        agg["evaluations"] += res.get("evaluations", len(cases))
    else:
        case = int(res["tape_digest"], 16)
        agg["cases"].add(case)
        if res.get("nontrivial", True):
            agg["nontrivial_cases"].add(case)
        agg["evaluations"] += 1
    if len(agg["samples"]) < 2 and res.get("sample") is not None:
        agg["samples"].append({"index": idx, "seed": res["seed"], "case": res["sample"]})
    agg["digests"][idx] = run_digest(res)


def merge(a, b):
    for k in ("runs", "evaluations", "skipped", "steps", "yields"):
        a[k] += b[k]
    for k in ("fired", "probes", "ops", "extra"):
        for kk, v in b[k].items():
            a[k][kk] = a[k].get(kk, 0) + v
    for kk, v in b["maxdiff"].items():
        a["maxdiff"][kk] = max(a["maxdiff"].get(kk, 0.0), v)
    for k in ("states", "interleavings", "cases", "nontrivial_cases"):
        if len(a[k]) < 4_000_000:  # memory guard; the evidence then reports a lower bound
            a[k] |= b[k]
    a["samples"] += b["samples"]
    a["violations"] += b["violations"]
    a["harness"] += b["harness"]
    a["digests"].update(b["digests"])


def batch(prop, base_seed, n_runs, wall, workers, opts=None, chunk=None, stop_on_violation=True):
    from .farm import JobFailed, farm

    chunk = chunk or max(1, min(25, n_runs // (workers * 4) or 1))
    deadline = time.monotonic() + wall
    jobs = [
        (prop, base_seed, list(range(i, min(i + chunk, n_runs))), deadline, opts or {})
        for i in range(0, n_runs, chunk)
    ]
    agg = new_agg()

    def stop():
        return stop_on_violation and bool(agg["violations"] or agg["harness"])

    for i, res in farm(_chunk, jobs, max(workers, 1), timeout=900, stop=stop):
        if isinstance(res, JobFailed):
            agg["harness"].append({"index": jobs[i][2][0], "seed": None, "error": f"worker process failed on runs {jobs[i][2][0]}..{jobs[i][2][-1]}", "tb": str(res)})
        else:
            merge(agg, res)
    return agg


# --------------------------------------------------------- findings / replay
def load_known():
    path = os.path.join(VERIF, "known_findings.json")
    if not os.path.exists(path):
        return []
    with open(path) as f:
        return json.load(f).get("findings", [])


def known_match(prop, v, known):
    for k in known:
        if k.get("status") != "open" or k.get("property") != prop:
            continue
        if k.get("key") and k["key"] == v.get("key"):
            return k
    return None


def write_replay(prop, mod, v, base_seed):
    from .shrink import attempt, shrink, shrink_prelude

    def run(t):
        return mod.run(t, {})

    prelude = []
    first = attempt(run, v["tape"])
    if first["oracle"] == v["oracle"]:
        tape, runs, ok = shrink(run, v["tape"], v["oracle"])
    else:
        # not reproducible on its own: it depends on what earlier runs left behind in the process
        prelude, ok = shrink_prelude(run, v.get("prelude") or [], v["tape"], v["oracle"])
        tape, runs = v["tape"], 0
        if ok:
            tape, runs, ok = shrink(run, v["tape"], v["oracle"], prelude=prelude)
    final = attempt(run, tape, prelude)
    os.makedirs(os.path.join(VERIF, "replays"), exist_ok=True)
    path = os.path.join(VERIF, "replays", f"{prop}-{v['seed']}.json")
    reproduces = final["oracle"] == v["oracle"]
    doc = {
        "property": prop,
        "verif_seed": base_seed,
        "run_index": v["index"],
        "run_seed": v["seed"],
        "oracle": v["oracle"],
        "detail": final["detail"] if reproduces else v["detail"],
        "key": v.get("key"),
        "prelude": prelude,
        "prelude_note": "tapes of earlier runs that must execute first in the same process (the violation depends on state they leave behind)" if prelude else None,
        "tape": tape,
        "tape_decoded": final["decoded"],
        "original_tape_length": len(v["tape"]),
        "shrink_runs": runs,
        "reproduces_in_fresh_process": reproduces,
        "trace": final["trace"] if reproduces else v.get("trace"),
        "replay_cmd": f"bin/check {prop} --replay {path}",
    }
    with open(path, "w") as f:
        json.dump(doc, f, indent=1, default=str)
    return path


def do_replay(prop, path):
    from .tape import Tape

    mod = load(prop)
    with open(path) as f:
        doc = json.load(f)
    for p in doc.get("prelude") or []:
        try:
            mod.run(Tape(replay=p), {})
        except Exception:  # noqa: B902 - only the state it leaves behind matters
            pass
    res = one_run(mod, replay=doc["tape"])
    if res["outcome"] == "violation":
        same = res["oracle"] == doc["oracle"]
        print(f"replayed: oracle={res['oracle']} ({'same' if same else 'DIFFERENT from recorded ' + doc['oracle']})")
        print(f"detail: {res['detail']}")
        print(f"VIOLATION property={prop} replay={path}")
        return 1
    if res["outcome"] == "harness":
        print("HARNESS-ERROR during replay:", res["error"])
        print(res["tb"])
        return 2
    print(f"replay of {path}: no violation on this tree")
    return 0


# ------------------------------------------------------------------ evidence
def write_evidence(prop, mod, tier, base_seed, agg, wall_s, n_known, planned):
    runs_ok = agg["runs"] - len(agg["violations"]) - len(agg["harness"])
    cov = {
        "evaluations": max(agg["evaluations"], 1),
        "simulated_runs": agg["runs"],
        "distinct_nontrivial": len(agg["nontrivial_cases"]),
        "rule": mod.RULE,
        "samples": agg["samples"][:6],
        "runs_planned": planned,
        "runs_completed_ok": runs_ok,
        "runs_skipped_wall_cap": agg["skipped"],
        "runs_per_hour": int(agg["runs"] / max(wall_s, 1e-9) * 3600),
        "seeds_per_hour": int(agg["runs"] / max(wall_s, 1e-9) * 3600),
        "simulated_time": {
            "unit": "logical steps (verde has no clock, timer or timeout; nothing reads simulated wall time)",
            "scheduler_steps": agg["steps"],
            "yield_points_passed": agg["yields"],
        },
        "operations": dict(sorted(agg["ops"].items())),
        "faults_fired": dict(sorted(agg["fired"].items())),
        "probes_hit": dict(sorted(agg["probes"].items())),
        "distinct_interleavings": len(agg["interleavings"]),
        "distinct_interleavings_measure": "distinct digests of the per-run sequence (actor picked, label where it parked or how it ended)",
        "distinct_abstract_states": len(agg["states"]),
        "distinct_abstract_states_measure": "distinct (unfinished task, status, last yield label)* + chosen actor, hashed; capped at 2M per process",
        "distinct_cases": len(agg["cases"]),
        "max_numeric_discrepancy": agg["maxdiff"],
        "extra": dict(sorted(agg["extra"].items())),
        "components": mod.COMPONENTS,
        "known_findings_reproduced": n_known,
        "exhaustive": False,
    }
    doc = {
        "property_id": prop,
        "tier": tier,
        "seed": int(base_seed),
        "level": mod.LEVEL,
        "coverage": cov,
        "assumptions": mod.ASSUMPTIONS,
        "wall_s": round(wall_s, 2),
        "violations": len(agg["violations"]) - n_known,
    }
    os.makedirs(os.path.join(VERIF, "evidence"), exist_ok=True)
    path = os.path.join(VERIF, "evidence", f"{prop}.json")
    tmp = path + ".tmp"
    with open(tmp, "w") as f:
        json.dump(doc, f, indent=1, default=str, sort_keys=False)
    os.replace(tmp, path)
    return path


# --------------------------------------------------------------- self-tests
def selftest_determinism(prop, base_seed, n, workers):
    """Same seeds twice in process, then in fresh interpreters under other hash seeds / worker counts."""
    a = batch(prop, base_seed, n, 3600, workers, stop_on_violation=False)
    b = batch(prop, base_seed, n, 3600, max(1, workers // 3), stop_on_violation=False, chunk=7)
    bad = [i for i in a["digests"] if a["digests"][i] != b["digests"].get(i)]
    print(f"in-process: {len(a['digests'])} seeds x2 at {workers} and {max(1, workers // 3)} workers, {len(bad)} digest mismatches")
    ok = not bad and len(a["digests"]) == len(b["digests"]) and not a["harness"]
    if a["harness"]:
        print("harness errors:", a["harness"][:2])
    for hs in ("1", "77"):
        env = dict(os.environ, PYTHONHASHSEED=hs, VERIF_SEED=str(base_seed))
        out = subprocess.run(
            [sys.executable, "-m", "sim", prop, "--digests", str(n), "--workers", str(workers)],
            env=env, cwd=VERIF, capture_output=True, text=True, timeout=3600,
        )
        try:
            other = {int(k): v for k, v in json.loads(out.stdout.strip().splitlines()[-1]).items()}
        except Exception:  # noqa: B902
            print("fresh interpreter failed:", out.stdout[-500:], out.stderr[-2000:])
            ok = False
            continue
        bad2 = [i for i in a["digests"] if a["digests"][i] != other.get(i)]
        print(f"fresh interpreter PYTHONHASHSEED={hs}: {len(other)} seeds, {len(bad2)} digest mismatches {bad2[:5]}")
        ok = ok and not bad2 and len(other) == len(a["digests"])
    print("DETERMINISM", "OK" if ok else "FAILED")
    return 0 if ok else 2


# ---------------------------------------------------------------------- main
def main(argv=None):
    ap = argparse.ArgumentParser(prog="check")
    ap.add_argument("prop", choices=sorted(PROPS))
    ap.add_argument("--tier", default=os.environ.get("VERIF_TIER", "quick"), choices=["quick", "thorough"])
    ap.add_argument("--replay")
    ap.add_argument("--selftest", choices=["determinism"])
    ap.add_argument("--digests", type=int)
    ap.add_argument("--runs", type=int)
    ap.add_argument("--wall", type=float)
    ap.add_argument("--workers", type=int, default=int(os.environ.get("VERIF_WORKERS", "0")) or min(16, os.cpu_count() or 1))
    ap.add_argument("--no-evidence", action="store_true")
    args = ap.parse_args(argv)
    try:
        base_seed = int(os.environ.get("VERIF_SEED", "0") or 0)
    except ValueError:
        base_seed = int.from_bytes(hashlib.sha256(os.environ["VERIF_SEED"].encode()).digest()[:6], "big")
    try:
        repo = setup_path()
        mod = load(args.prop)
    except SystemExit:
        raise
    except Exception:  # noqa: B902
        traceback.print_exc()
        print("HARNESS-ERROR: cannot import the system under test / the property module")
        return 2
    prop = args.prop
    print(f"property={prop} tier={args.tier} VERIF_SEED={base_seed} repo={repo} PYTHONHASHSEED={os.environ.get('PYTHONHASHSEED')} workers={args.workers}")
    if args.replay:
        return do_replay(prop, args.replay)
    if args.digests:
        agg = batch(prop, base_seed, args.digests, 3600, args.workers, stop_on_violation=False)
        print(json.dumps({str(k): v for k, v in sorted(agg["digests"].items())}))
        return 0
    if args.selftest:
        return selftest_determinism(prop, base_seed, args.runs or 200, args.workers)

    plan = mod.TIERS[args.tier]
    n_runs = args.runs or plan["runs"]
    wall = args.wall or plan["wall"]
    t0 = time.monotonic()
    agg = batch(prop, base_seed, n_runs, wall, args.workers, opts={"tier": args.tier}, chunk=plan.get("chunk"))
    # built-in determinism probe: the first runs again, in other processes, with another chunking
    recheck = min(int(os.environ.get("VERIF_RECHECK", "48")), n_runs)
    nondet = []
    if recheck and not agg["violations"] and not agg["harness"]:
        again = batch(prop, base_seed, recheck, wall, max(1, args.workers // 2), opts={"tier": args.tier}, chunk=5, stop_on_violation=False)
        nondet = [i for i in range(recheck) if i in agg["digests"] and agg["digests"][i] != again["digests"].get(i)]
        agg["extra"]["determinism_probe_runs_repeated"] = recheck
        agg["extra"]["determinism_probe_mismatches"] = len(nondet)
    wall_s = time.monotonic() - t0
    if nondet:
        print(f"HARNESS-ERROR: runs {nondet[:10]} did not repeat exactly (event-log digests differ between two executions of the same seed)")
        return 2
    if agg["harness"]:
        h = agg["harness"][0]
        print(f"HARNESS-ERROR run index={h['index']} seed={h['seed']}: {h['error']}")
        print(h["tb"])
        return 2
    known = load_known()
    rc = 0
    n_known = 0
    reported_known = set()
    new = []
    for v in sorted(agg["violations"], key=lambda x: x["index"]):
        k = known_match(prop, v, known)
        if k is not None:
            n_known += 1
            if k["key"] not in reported_known:
                reported_known.add(k["key"])
                print(f"KNOWN-FINDING: property={prop} {k['what']}")
            continue
        new.append(v)
    for v in new[:3]:
        path = write_replay(prop, mod, v, base_seed)
        print(f"violation: oracle={v['oracle']} run_index={v['index']} seed={v['seed']}")
        print(f"  {v['detail'][:600]}")
        print(f"VIOLATION property={prop} replay={path}")
        rc = 1
    if not args.no_evidence:
        path = write_evidence(prop, mod, args.tier, base_seed, agg, wall_s, n_known, n_runs)
        print(f"evidence: {path}")
    ok_runs = agg["runs"] - len(agg["violations"])
    print(
        f"runs={agg['runs']} ok={ok_runs} skipped={agg['skipped']} steps={agg['steps']} yields={agg['yields']} "
        f"interleavings={len(agg['interleavings'])} states={len(agg['states'])} wall={wall_s:.1f}s"
    )
    print("faults fired:", json.dumps(dict(sorted(agg["fired"].items()))))
    if rc == 0 and agg["runs"] == 0:
        print("HARNESS-ERROR: nothing was run")
        return 2
    return rc


if __name__ == "__main__":
    sys.exit(main())
