"""
The choice tape: the single source of every decision in a simulated run.

Generation mode draws from ``random.Random(seed)``; replay mode reads the
recorded values back (clamped ``mod n``, ``0`` when exhausted), so a replay is a
pure function of the recorded tape and the code under test.

Nothing in this module reads a clock, and logging never draws.
"""
import hashlib
import random


def derive_seed(base_seed, prop, index):
    """Seed of run *index* of property *prop* under VERIF_SEED=*base_seed*."""
    h = hashlib.sha256(f"{base_seed}:{prop}:{index}".encode()).digest()
    return int.from_bytes(h[:8], "big")


class Tape:
    def __init__(self, seed=None, replay=None):
        if (seed is None) == (replay is None):
            raise ValueError("give exactly one of seed / replay")
        self.seed = seed
        self._rng = random.Random(seed) if seed is not None else None
        self._replay = list(replay) if replay is not None else None
        self._pos = 0
        self.values = []  # every draw, in order
        self.bounds = []  # the n of every draw (for shrinking / decoding)
        self.labels = []  # human label of every draw

    # ------------------------------------------------------------------ core
    def draw(self, n, label=""):
        """An integer in [0, n)."""
        if n <= 0:
            raise ValueError("draw(n) needs n >= 1")
        if self._rng is not None:
            v = self._rng.randrange(n) if n > 1 else 0
        else:
            if self._pos < len(self._replay):
                v = int(self._replay[self._pos]) % n
            else:
                v = 0
            self._pos += 1
        self.values.append(v)
        self.bounds.append(n)
        self.labels.append(label)
        return v

    # ------------------------------------------------------------- derived
    def coin(self, p, label=""):
        """True with probability ~p (resolution 1/1000). p<=0 / p>=1 do not draw."""
        if p <= 0:
            return False
        if p >= 1:
            return True
        # "0" is the simplest value and means False, so shrinking removes events
        return self.draw(1000, label) >= 1000 - int(round(p * 1000))

    def pick(self, seq, label=""):
        seq = list(seq)
        return seq[self.draw(len(seq), label)]

    def randint(self, lo, hi, label=""):
        """Integer in [lo, hi] inclusive."""
        return lo + self.draw(hi - lo + 1, label)

    def uniform(self, lo, hi, label=""):
        """Float in [lo, hi] on a 2**20 lattice (exactly replayable)."""
        return lo + (hi - lo) * (self.draw(1 << 20, label) / float((1 << 20) - 1))

    def subseed(self, label=""):
        """A 31-bit seed for numpy RandomState (dataset contents)."""
        return self.draw(1 << 31, label)

    def weighted(self, items, label=""):
        """items: list of (value, weight:int). First item is the simplest."""
        total = sum(w for _, w in items)
        r = self.draw(total, label)
        for v, w in items:
            if r < w:
                return v
            r -= w
        return items[-1][0]

    # -------------------------------------------------------------- export
    def digest(self):
        return hashlib.sha256(repr(self.values).encode()).hexdigest()[:16]

    def decoded(self, limit=400):
        out = []
        for v, n, lab in zip(self.values, self.bounds, self.labels):
            out.append(f"{lab}={v}/{n}")
            if len(out) >= limit:
                out.append("...")
                break
        return out
