"""
Baton-passing scheduler: real threads, no real scheduling decisions.

Every task attempt is an ``Actor`` running in its own OS thread, but exactly one
thread (the driver or one actor) executes Python at any instant.  Actors hand the
baton back at *yield points* (entries of non-generator functions of the verde
package, see inject.py).  Which actor runs next, whether a yield point parks,
and where a worker is killed are all draws on the run's tape.
"""
import hashlib
import sys
import threading

from .inject import SimKilled, make_tracer

HANG_TIMEOUT = 120.0  # real seconds; harness guard only


class HarnessError(Exception):
    """Something went wrong in the simulator itself (never a VIOLATION)."""


class Violation(Exception):
    """The property was observed to fail."""

    def __init__(self, oracle, detail, key=None):
        super().__init__(f"{oracle}: {detail}")
        self.oracle = oracle
        self.detail = detail
        self.key = key  # stable identifier for known-findings matching


class SchedConfig:
    """All knobs of one run; drawn from the tape (swarm style)."""

    def __init__(self, tape, allow_faults=True, max_workers=8):
        self.strategy = tape.weighted([("uniform", 3), ("pct", 2)], "strategy")
        self.p_switch = tape.pick([0.3, 0.05, 1.0, 0.0], "p_switch")
        self.workers = tape.randint(1, max_workers, "workers")
        self.serialize = bool(tape.draw(2, "serialize"))
        budget = tape.pick([0, 0, 1, 2, 3], "fault_budget") if allow_faults else 0
        self.kills = []
        self.dup_budget = 0
        for i in range(budget):
            kind = tape.weighted([("dup", 2), ("kill_label", 2), ("kill_step", 1)], f"fault{i}")
            if kind == "dup":
                self.dup_budget += 1
            elif kind == "kill_label":
                lab = tape.pick(KILL_LABELS, f"kill{i}.label")
                self.kills.append({"mode": "label", "label": lab, "nth": tape.draw(6, f"kill{i}.nth"), "seen": 0, "fired": False})
            else:
                self.kills.append({"mode": "step", "at": tape.draw(400, f"kill{i}.at"), "fired": False})
        self.pct_changes = set()
        if self.strategy == "pct":
            for i in range(tape.draw(4, "pct_depth")):
                self.pct_changes.add(tape.draw(300, f"pct_change{i}"))

    @classmethod
    def fixed(cls, strategy="uniform", p_switch=0.0, workers=1, serialize=False, kills=(), dup_budget=0, pct_changes=()):
        """A configuration that is not drawn from the tape (used by enumerations)."""
        self = cls.__new__(cls)
        self.strategy, self.p_switch, self.workers, self.serialize = strategy, p_switch, workers, serialize
        self.kills = [dict(k, fired=False, seen=0) for k in kills]
        self.dup_budget = dup_budget
        self.pct_changes = set(pct_changes)
        return self

    def describe(self):
        return {
            "strategy": self.strategy,
            "p_switch": self.p_switch,
            "workers": self.workers,
            "serialize": self.serialize,
            "kills": [{k: v for k, v in kp.items() if k not in ("seen", "fired")} for kp in self.kills],
            "dup_budget": self.dup_budget,
            "pct_changes": sorted(self.pct_changes),
        }


# Boundaries that create in-flight state (half of the kills are aimed here).
KILL_LABELS = [
    "base.utils:score_estimator",      # between fit and score
    "base.least_squares:least_squares",  # region_/force_coords_ new, force_/coef_ old
    "base.base_classes:BaseGridder.filter",  # chain between steps
    "base.base_classes:BaseGridder.score",
    "base.utils:check_data",            # after predict, before metric
    "coordinates:get_region",
    "model_selection:fit_score",        # at the very start of a task
    "model_selection:select",           # inside a submitted cross_val_score
]


class Actor:
    def __init__(self, sched, name, fn, killable=True, meta=None, priority=0):
        self.sched = sched
        self.name = name
        self.fn = fn
        self.killable = killable
        self.meta = meta or {}
        self.priority = priority
        self.state = "ready"  # ready -> running <-> parked -> done|failed|killed
        self.go = threading.Event()
        self.thread = None
        self.result = None
        self.exc = None
        self.yields = 0
        self.last_label = "-"
        self.abort = False
        self.start_step = None
        self.end_step = None

    @property
    def finished(self):
        return self.state in ("done", "failed", "killed")

    @property
    def active(self):
        return self.state in ("running", "parked")


class Sched:
    def __init__(self, tape, cfg, root=None):
        self.tape = tape
        self.cfg = cfg
        self.actors = {}
        self.back = threading.Event()
        self.log = []
        self.picks = []  # interleaving: sequence of (actor name, label where it parked)
        self.states = set()  # abstract states reached (hashed)
        self.yields = 0  # global yield counter == logical time
        self.steps = 0  # scheduler decisions
        self.fired = {"kill": 0, "kill_label": 0, "kill_step": 0, "park": 0, "pct_demote": 0}
        self.probes = {}
        self.current = None
        self._demote = 0
        self._tracer = make_tracer(self._on_yield, root)
        self.max_steps = 20000
        self.on_finish = None  # callback(actor) run in the driver after an actor finishes

    # ---------------------------------------------------------------- actors
    def spawn(self, name, fn, killable=True, meta=None):
        if name in self.actors:
            raise HarnessError(f"duplicate actor name {name}")
        prio = self.tape.draw(1000, "prio") if self.cfg.strategy == "pct" else 0
        a = Actor(self, name, fn, killable, meta, prio)
        self.actors[name] = a
        self.log.append(("spawn", name))
        return a

    def _body(self, a):
        a.go.wait()
        if a.abort:
            a.state = "killed"
            self.back.set()
            return
        sys.settrace(self._tracer)
        try:
            a.result = a.fn()
            a.state = "done"
        except SimKilled:
            a.state = "killed"
        except BaseException as e:  # noqa: B902 - the task failed; the property decides what that means
            a.exc = e
            a.state = "failed"
        finally:
            sys.settrace(None)
            a.end_step = self.yields
            self.back.set()

    # ------------------------------------------------------ inside an actor
    def _on_yield(self, label, frame):  # noqa: U100
        a = self.current
        if a is None or threading.current_thread() is not a.thread:
            return  # the driver thread is not traced; defensive
        self.yields += 1
        a.yields += 1
        a.last_label = label
        if a.abort:
            raise SimKilled("abort")
        # ---- kill plans
        if a.killable:
            for kp in self.cfg.kills:
                if kp["fired"]:
                    continue
                if kp["mode"] == "step":
                    hit = self.yields >= kp["at"]
                else:
                    hit = False
                    if label == kp["label"]:
                        hit = kp["seen"] == kp["nth"]
                        kp["seen"] += 1
                if hit:
                    kp["fired"] = True
                    self.fired["kill"] += 1
                    self.fired["kill_" + kp["mode"]] += 1
                    self.log.append(("kill", a.name, label, self.yields))
                    self.probe("kill@" + label)
                    raise SimKilled(label)
        # ---- pre-emption
        if self.cfg.strategy == "pct":
            park = self.yields in self.cfg.pct_changes
            if park:
                self._demote += 1
                a.priority = -self._demote
                self.fired["pct_demote"] += 1
        else:
            park = self.tape.coin(self.cfg.p_switch, "switch")
        if park:
            self.fired["park"] += 1
            a.state = "parked"
            a.go.clear()
            self.back.set()
            a.go.wait()
            a.state = "running"
            if a.abort:
                raise SimKilled("abort")

    def probe(self, name, n=1):
        self.probes[name] = self.probes.get(name, 0) + n

    # ------------------------------------------------------- in the driver
    def runnable(self):
        n_active = sum(1 for a in self.actors.values() if a.active)
        out = []
        for name in sorted(self.actors):
            a = self.actors[name]
            if a.state == "parked":
                out.append(a)
            elif a.state == "ready" and n_active < self.cfg.workers:
                out.append(a)
        return out

    def step(self):
        """Run one actor until it parks or finishes.  False if nothing is runnable."""
        cand = self.runnable()
        if not cand:
            return False
        self.steps += 1
        if self.steps > self.max_steps:
            raise HarnessError("step cap exceeded")
        if self.cfg.strategy == "pct":
            a = max(cand, key=lambda x: (x.priority, x.name))
        else:
            a = cand[self.tape.draw(len(cand), "pick")] if len(cand) > 1 else cand[0]
        self._abstract_state(a)
        self._resume(a)
        self.picks.append((a.name, a.last_label if a.state == "parked" else a.state))
        if a.finished:
            self.log.append((a.state, a.name, self.yields))
            if self.on_finish is not None:
                self.on_finish(a)
        return True

    def _resume(self, a):
        self.current = a
        self.back.clear()
        if a.thread is None:
            a.start_step = self.yields
            a.state = "running"
            a.thread = threading.Thread(target=self._body, args=(a,), name=a.name, daemon=True)
            a.thread.start()
        a.go.set()
        if not self.back.wait(HANG_TIMEOUT):
            raise HarnessError(f"actor {a.name} did not hand the baton back")
        self.current = None
        if a.finished:
            a.thread.join(HANG_TIMEOUT)

    def _abstract_state(self, chosen):
        key = tuple(
            (strip_attempt(n), a.state, a.last_label)
            for n, a in sorted(self.actors.items())
            if not a.finished
        ) + (strip_attempt(chosen.name),)
        self.states.add(hash64(repr(key)))

    def run_until(self, pred):
        while not pred():
            if not self.step():
                raise HarnessError("deadlock: predicate not reached and nothing runnable")

    def drain(self):
        while self.step():
            pass

    def shutdown(self):
        """Unwind every unfinished actor (used when a run is abandoned)."""
        for a in list(self.actors.values()):
            if a.state == "parked":
                a.abort = True
                self._resume(a)
            elif a.state == "ready":
                a.state = "killed"
        alive = [a.name for a in self.actors.values() if a.thread is not None and a.thread.is_alive()]
        if alive:
            raise HarnessError(f"threads left alive: {alive}")

    # --------------------------------------------------------------- digests
    def interleaving_digest(self):
        return hash64(repr(self.picks))

    def log_digest(self):
        return hashlib.sha256(repr(self.log).encode()).hexdigest()[:16]


def strip_attempt(name):
    return name.split("#", 1)[0]


def hash64(s):
    return int.from_bytes(hashlib.blake2b(s.encode(), digest_size=8).digest(), "big")
