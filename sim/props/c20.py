"""
C20 - calls are pure, repeatable, history-free and reject inconsistent input.

One run = one history of 6-16 operations over a universe of live estimator
objects, a pool of read-only datasets and the process-global numpy RNG, with
rejected and interrupted calls as injected faults.  After every operation the
invariants of DESIGN.md section 3 (C20) are checked against a history-free
reference model (a fresh instance fitted once to the last completed dataset).
"""
import copy
import pickle
import sys
import warnings

import numpy as np

from ..inject import CallPoints, SimInterrupt
from ..sched import HarnessError, Violation, hash64
from ..util import ArgGuard, arrays_of, freeze_params, same_result
from ..workload import REDUCTIONS, build_estimator, gen_dataset

PROPERTY = "C20"
LEVEL = "exploration"
TIERS = {"quick": {"runs": 9000, "wall": 300}, "thorough": {"runs": 4000, "wall": 1800, "chunk": 8}}
RTOL_MODEL = 1e-9  # history-laden object vs fresh model (calibrated: bit-identical)
RTOL_REPEAT = 1e-12

RULE = (
    "Each run draws a universe (1-3 live estimators out of Trend, Spline, SplineCV, KNeighbors, Linear, Cubic, ScipyGridder, Chain, Vector, "
    "VectorSpline2D; 3-5 read-only datasets of different size/shape/weights; query points) and a history of 6-16 operations: fit, fit with one "
    "planted inconsistency (must raise), fit/filter interrupted at a tape-chosen verde call (thorough: every call point enumerated), predict / grid / "
    "profile / scatter / score / filter, verbatim repeat, clone, set_params(**get_params()), pickle round trip, seeded random calls "
    "(scatter_points, BlockKFold, BlockShuffleSplit, train_test_split, gridder.scatter) under global-RNG perturbation, stateless public functions "
    "and block reducers/splitters called on alternating datasets, invalid shape/spacing/region arguments (must raise). A case is one history (tape); "
    "it is non-trivial when it contains at least one refit on different data or an injected fault (rejection/interrupt) or a copy operation; distinct = distinct tape digests."
)
ASSUMPTIONS = [
    "the reference model is a fresh instance of the same estimator class built from the constructor spec and fitted once to the last completed dataset (VectorSpline2D: with the force_coords read back from the object, its documented memory)",
    "between an interrupted or rejected fit and the next completed fit nothing is asserted about the object (atomic fits are not promised); purity of arguments is asserted always",
    "interrupts are raised only at entries of non-generator functions of the verde package",
    "float results are compared with rtol 1e-12 (repeat) / 1e-9 of the data scale (history vs fresh); integer, boolean and index results exactly",
    "histories are sampled; interrupt positions are enumerated in the thorough tier only",
]
COMPONENTS = {
    "real": ["verde (from the /repo working tree)", "numpy/scipy/sklearn/pandas/xarray", "pickle", "process-global numpy RNG (perturbed by the simulator)"],
    "stub": ["KeyboardInterrupt/MemoryError -> SimInterrupt raised by a settrace hook at verde call points"],
}


# --------------------------------------------------------------------- specs
def gen_live_spec(tape, tag):
    ncomp = tape.weighted([(1, 3), (2, 1)], f"{tag}.ncomp")
    if ncomp == 1:
        kind = tape.weighted(
            [("trend", 3), ("spline", 3), ("knn", 2), ("splinecv", 1), ("linear", 1), ("cubic", 1), ("scipy", 1), ("chain", 2)], f"{tag}.kind"
        )
        if kind == "trend":
            return 1, ["trend", tape.randint(1, 3, f"{tag}.degree")]
        if kind == "spline":
            return 1, ["spline", tape.pick([1e-2, 1.0, 1e-4, None], f"{tag}.damping")]
        if kind == "knn":
            return 1, ["knn", tape.randint(1, 4, f"{tag}.k"), tape.pick(["mean", "median", "midrange"], f"{tag}.red")]
        if kind == "splinecv":
            return 1, ["splinecv", [tape.pick([1e-2, 1e-3], f"{tag}.d0"), tape.pick([1.0, 10.0], f"{tag}.d1")]]
        if kind == "linear":
            return 1, ["linear"]
        if kind == "cubic":
            return 1, ["cubic"]
        if kind == "scipy":
            return 1, ["scipy", tape.pick(["linear", "nearest", "cubic"], f"{tag}.method")]
        return 1, ["chain", [["trend", tape.randint(1, 2, f"{tag}.degree")], ["spline", tape.pick([1e-2, 1.0], f"{tag}.damping")]]]
    kind = tape.weighted([("vector", 2), ("vspline", 2), ("chainvec", 1)], f"{tag}.vkind")
    if kind == "vspline":
        return 2, ["vspline", tape.pick([1e-2, 1.0], f"{tag}.damping"), tape.pick([0.5, 0.3], f"{tag}.poisson")]
    if kind == "vector":
        return 2, ["vector", [["trend", tape.randint(1, 2, f"{tag}.d0")], ["spline", tape.pick([1e-2, 1.0], f"{tag}.d1")]]]
    return 2, ["chain", [["vector", [["trend", 1], ["trend", 2]]], ["vector", [["spline", 1e-2], ["knn", 2, "mean"]]]]]


def build(spec):
    import verde as vd

    if spec[0] == "splinecv":
        return vd.SplineCV(dampings=tuple(spec[1]))
    if spec[0] == "scipy":
        return vd.ScipyGridder(method=spec[1])
    if spec[0] == "chain":
        return vd.Chain([(f"s{i}", build(s)) for i, s in enumerate(spec[1])])
    if spec[0] == "vector":
        return vd.Vector([build(s) for s in spec[1]])
    return build_estimator(spec)


class Live:
    def __init__(self, spec, ncomp):
        self.spec = spec
        self.ncomp = ncomp
        self.obj = build(spec)
        self.last_fit = None  # index of the dataset of the last COMPLETED fit
        self.unknown = False  # True between an interrupted/rejected fit and the next completed fit
        self.touched = False  # any fit attempted (completed or not)
        # VectorSpline2D only: the force locations its first fit established (None before), and the datasets
        # whose coordinates an INTERRUPTED first fit may legitimately have left behind
        self.vs_force = None
        self.vs_maybe = []

    def note_fit(self, ds, completed, where):
        """Model of VectorSpline2D's documented memory; anything else in force_coords is a history dependence."""
        if self.spec[0] != "vspline":
            return
        coords = tuple(np.ravel(c).copy() for c in ds.coordinates[:2])
        actual = self.obj.force_coords
        if self.vs_force is not None:
            return  # established earlier: compare_model checks the behaviour
        if not completed:
            self.vs_maybe.append(coords)
            return
        allowed = [coords] + self.vs_maybe
        for cand in allowed:
            if same_force(actual, cand):
                self.vs_force = cand
                self.vs_maybe = []
                return
        raise Violation(
            "history-dependent",
            f"{where}: VectorSpline2D's force locations ({None if actual is None else len(np.ravel(actual[0]))} points) are neither this first completed fit's data coordinates nor those of an interrupted earlier fit - they come from a call that was rejected",
        )


def fresh_model(live):
    est = build(live.spec)
    if live.spec[0] == "vspline":
        # documented memory: the force locations of the first fit (tracked by the model, see Live.note_fit)
        est.force_coords = live.vs_force
    return est


def same_force(a, b):
    if a is None or b is None:
        return a is None and b is None
    return len(a) == len(b) and all(np.array_equal(np.ravel(x), np.ravel(y)) for x, y in zip(a, b))


# ------------------------------------------------------------------ universe
class Universe:
    def __init__(self, tape):
        self.guard = ArgGuard()
        self.datasets = {1: [], 2: []}
        for ncomp in (1, 2):
            # a third of the pools hold datasets of ONE size (other points, other values): state keyed by
            # size or shape that survives a refit is only visible then
            same_size = tape.coin(0.35, f"pool{ncomp}.same_size")
            n_fixed = None
            for i in range(tape.randint(2, 3, f"pool{ncomp}.n")):
                ds = gen_dataset(tape, ncomp=ncomp, nmin=14, nmax=40, allow_extra=False, tag=f"P{ncomp}{i}", n=n_fixed)
                if same_size:
                    n_fixed = ds.n
                # most datasets are read-only; some stay writable so that a call that scribbles on its
                # arguments "temporarily" (and restores them) is visible when it is interrupted
                ro = not tape.coin(0.35, f"P{ncomp}{i}.writable")
                ds.desc["readonly"] = ro
                ds.coordinates = self.guard.add_all(ds.coordinates, ro)
                ds.data = self.guard.add_all(ds.data, ro)
                if ds.weights is not None:
                    ds.weights = self.guard.add_all(ds.weights, ro)
                self.datasets[ncomp].append(ds)
        rs = np.random.RandomState(tape.subseed("queries"))
        self.queries = [self.guard.add_all((rs.uniform(5, 95, m), rs.uniform(-55, 35, m))) for m in (7, 11)]
        self.queries.append(self.guard.add_all((rs.uniform(5, 95, (3, 4)), rs.uniform(-55, 35, (3, 4)))))
        # same shapes, other points: a call on these right after a call on `queries` must not disturb its result
        self.queries_alt = [self.guard.add_all(tuple(np.ascontiguousarray(a[::-1]) * 0.93 + 1.0 for a in q)) for q in self.queries]
        self.results = []  # (where, result object, copies of its arrays)
        self.aliased = []

    def check_purity(self, where):
        bad = self.guard.changed()
        if bad:
            raise Violation("argument-array-modified", f"{where}: argument array(s) {bad} were modified (or made writable) by the call")

    def remember(self, where, result):
        arrs = arrays_of(result)
        if arrs:
            self.results.append((where, arrs, [a.copy() for a in arrs]))
            if len(self.results) > 6:
                self.results.pop(0)

    def check_aliasing(self, where):
        for origin, arrs, copies in self.results:
            for a, c in zip(arrs, copies):
                if a.shape != c.shape or not np.array_equal(a, c, equal_nan=True if a.dtype.kind == "f" else False):
                    # "calls are pure": a later call must not reach into an array it was not even given - the
                    # caller still holds the earlier result (no correct implementation hands out shared buffers)
                    raise Violation("result-aliased", f"{where}: the result returned earlier by [{origin}] changed afterwards (the two calls share a buffer)")


def observe(est, q):
    pred = est.predict(q)
    out = {"pred": tuple(pred) if isinstance(pred, tuple) else (pred,)}
    if hasattr(est, "region_"):
        out["region"] = tuple(float(x) for x in est.region_)
    return out


# ------------------------------------------------------------------ the run
class History:
    def __init__(self, tape, opts):
        self.tape = tape
        self.thorough = opts.get("tier") == "thorough"
        self.u = Universe(tape)
        self.lives = []
        for i in range(tape.randint(1, 3, "nlive")):
            ncomp, spec = gen_live_spec(tape, f"L{i}")
            self.lives.append(Live(spec, ncomp))
        self.trace = []
        self.probes = {}
        self.fired = {}
        self.maxdiff = {}
        self.last_query = None  # (description, thunk, result) of the last repeatable call
        self.flags = {"refit_other_data": False, "fault": False, "copy": False}
        self.ops = 0

    # ----------------------------------------------------------- primitives
    def probe(self, name):
        self.probes[name] = self.probes.get(name, 0) + 1

    def fire(self, name):
        self.fired[name] = self.fired.get(name, 0) + 1
        self.flags["fault"] = True

    def must(self, where, thunk):
        """A call the model says must succeed."""
        try:
            return thunk()
        except (Violation, HarnessError):
            raise
        except Exception as e:  # noqa: B902
            ro = "read-only" in str(e)
            raise Violation(
                "rejects-read-only-argument" if ro else "unexpected-exception",
                f"{where}: raised {type(e).__name__}: {str(e)[:300]}",
            ) from e

    def must_raise(self, where, thunk, oracle="accepted-inconsistent-input"):
        try:
            res = thunk()
        except (Violation, HarnessError):
            raise
        except Exception:  # noqa: B902 - any error satisfies "rejected with an error"
            return
        raise Violation(oracle, f"{where}: returned {type(res).__name__} instead of raising")

    def after(self, where):
        self.u.check_purity(where)
        self.u.check_aliasing(where)

    def compare_model(self, live, where):
        """History-freedom: the live object equals a fresh one fitted to the last completed dataset."""
        if live.unknown or live.last_fit is None:
            return
        ds = self.u.datasets[live.ncomp][live.last_fit]
        ref = fresh_model(live)
        self.must(f"{where}: fitting the fresh reference", lambda: ref.fit(ds.coordinates, ds.data_arg(), ds.weights_arg()))
        scale = max(float(np.max(np.abs(np.concatenate([np.ravel(d) for d in ds.data])))), 1.0)
        for qi, q in enumerate(self.u.queries[:2]):
            got = self.must(f"{where}: predict", lambda q=q: observe(live.obj, q))
            want = observe(ref, q)
            ok, d = same_result(got, want, rtol=RTOL_MODEL, scale=scale)
            self.maxdiff["history_vs_fresh"] = max(self.maxdiff.get("history_vs_fresh", 0.0), d if np.isfinite(d) else 0.0)
            if not ok:
                raise Violation(
                    "history-dependent",
                    f"{where}: after the history {self.short_history(live)} the {live.spec[0]} object predicts/reports differently from a fresh one fitted to the same (last) dataset (rel. diff {d:.3g})",
                )

    def short_history(self, live):
        i = self.lives.index(live)
        return [t for t in self.trace if t.startswith(f"L{i}.")][-8:]

    # ------------------------------------------------------------ operations
    def op_fit(self, li, live):
        self.last_query = None  # a state-changing operation: the previous answer need not repeat
        pool = self.u.datasets[live.ncomp]
        j = self.tape.draw(len(pool), "fit.ds")
        ds = pool[j]
        via_filter = live.spec[0] != "splinecv" and self.tape.coin(0.25, "fit.via_filter")
        mode = self.tape.weighted([("complete", 5), ("interrupt", 2)], "fit.mode")
        name = "filter" if via_filter else "fit"
        args = (ds.coordinates, ds.data_arg(), ds.weights_arg())
        call = (lambda: live.obj.filter(*args)) if via_filter else (lambda: live.obj.fit(*args))
        if live.last_fit is not None and live.last_fit != j:
            self.flags["refit_other_data"] = True
            self.probe("refit_on_different_data")
        if mode == "interrupt":
            k = self.tape.draw(self.tape.pick([10, 30, 90, 250], "fit.krange"), "fit.k")
            self.trace.append(f"L{li}.{name}(D{j}) interrupted@{k}")
            done = self.interrupted(live, call, k, f"L{li}.{name}(D{j})")
            if not done:
                live.note_fit(ds, False, self.trace[-1])
                return
            self.trace[-1] += " (completed: k beyond the last call point)"
        else:
            self.trace.append(f"L{li}.{name}(D{j})")
            res = self.must(self.trace[-1], call)
            if via_filter:
                self.u.remember(self.trace[-1], res)  # what filter returns is C06's statement, not judged here
        live.note_fit(ds, True, self.trace[-1])
        live.last_fit, live.unknown, live.touched = j, False, True
        self.after(self.trace[-1])
        self.compare_model(live, self.trace[-1])
        if self.thorough and self.tape.coin(0.5, "fit.enumerate"):
            self.enumerate_interrupts(li, live, j, name)

    def interrupted(self, live, call, k, where):
        """Returns True if the call completed (k was beyond its last call point)."""
        try:
            with CallPoints(interrupt_at=k) as cp:
                call()
        except SimInterrupt:
            self.fire("interrupt")
            self.probe("interrupt@" + cp.fired.split(":")[-1])
            live.unknown, live.touched = True, True
            self.u.check_purity(where + f" interrupted at call {k} ({cp.fired})")
            return False
        except (Violation, HarnessError):
            raise
        except Exception as e:  # noqa: B902
            raise Violation("unexpected-exception", f"{where}: raised {type(e).__name__}: {str(e)[:300]}") from e
        return True

    def enumerate_interrupts(self, li, live, j, name):
        """Thorough tier: every call point of this fit is tried as the crash instant, each followed by a complete fit."""
        ds = self.u.datasets[live.ncomp][j]
        args = (ds.coordinates, ds.data_arg(), ds.weights_arg())
        call = (lambda: live.obj.filter(*args)) if name == "filter" else (lambda: live.obj.fit(*args))
        with CallPoints() as cp:
            call()
        stride = max(1, -(-cp.count // 150))  # every call point up to 150 per fit, else an even stride
        positions = list(range(0, cp.count, stride))
        n = len(positions)
        other = self.u.datasets[live.ncomp][(j + 1) % len(self.u.datasets[live.ncomp])]
        oargs = (other.coordinates, other.data_arg(), other.weights_arg())
        for k in positions:
            # crash while refitting to OTHER data, then a complete fit on D_j must restore fresh behaviour
            where = f"L{li}.fit(D{(j + 1) % len(self.u.datasets[live.ncomp])}) interrupted@{k} then {name}(D{j})"
            if not self.interrupted(live, lambda: live.obj.fit(*oargs), k, where):
                live.note_fit(other, False, where)
            else:
                live.note_fit(other, True, where)
            self.must(where, call)
            live.note_fit(ds, True, where)
            live.last_fit, live.unknown = j, False
            self.u.check_purity(where)
            self.compare_model(live, where)
        self.probe("interrupt_positions_enumerated")
        self.probes["interrupt_positions_total"] = self.probes.get("interrupt_positions_total", 0) + n

    def op_reject(self, li, live):
        self.last_query = None  # a state-changing operation: the previous answer need not repeat
        pool = self.u.datasets[live.ncomp]
        j = self.tape.draw(len(pool), "rej.ds")
        ds = pool[j]
        c, d, w = ds.coordinates, ds.data, ds.weights
        g = self.u.guard
        kinds = ["data_shape", "coord_shape", "weight_size", "weight_count", "extra_coord_shape"]
        if live.ncomp == 2:
            kinds.append("component_count" if live.spec[0] == "vspline" else "data_not_tuple" if live.spec[0] == "vector" else "data_shape")
        kind = self.tape.pick(kinds, "rej.kind")
        flat = lambda a: np.ravel(a)  # noqa: E731
        if kind == "data_shape":
            bad_d = tuple(g.add(flat(x)[:-1].copy()) for x in d)
            args = (c, bad_d[0] if len(bad_d) == 1 else bad_d, None)
        elif kind == "coord_shape":
            bad_c = (c[0], g.add(flat(c[1])[:-1].copy()))
            args = (bad_c, ds.data_arg(), ds.weights_arg())
        elif kind == "extra_coord_shape":
            # a third coordinate (height, time) whose shape disagrees with easting/northing
            bad_c = (c[0], c[1], g.add(np.ones(flat(c[0]).size - 1)))
            args = (bad_c, ds.data_arg(), ds.weights_arg())
        elif kind == "weight_size":
            ww = tuple(g.add(np.ones(flat(x).size - 1)) for x in d)
            args = (c, ds.data_arg(), ww[0] if len(ww) == 1 else ww)
        elif kind == "weight_count":
            one = g.add(np.ones(d[0].shape))
            ww = (one, one) if live.ncomp == 1 else (one,)
            args = (c, ds.data_arg(), ww)
        elif kind == "component_count":
            args = (c, (d[0], d[1], d[0]), None)
        else:
            args = (c, np.stack([flat(d[0]), flat(d[1])]), None)
        self.trace.append(f"L{li}.fit(D{j} with {kind}) must raise")
        self.fire("rejected_fit")
        was_unknown = live.unknown
        live.unknown, live.touched = True, True
        self.must_raise(self.trace[-1], lambda: live.obj.fit(*args))
        self.after(self.trace[-1])
        del was_unknown

    def op_query(self, li, live):
        kind = self.tape.weighted([("predict", 4), ("grid", 2), ("profile", 1), ("scatter", 1), ("score", 2)], "q.kind")
        obj = live.obj
        variant = None
        if kind == "predict":
            qi = self.tape.draw(len(self.u.queries), "q.which")
            q = self.u.queries[qi]
            q_alt = self.u.queries_alt[qi]
            desc, thunk = f"L{li}.predict(Q{qi})", (lambda: obj.predict(q))
            variant = lambda: obj.predict(q_alt)  # noqa: E731
        elif kind == "grid":
            sp = self.tape.pick([25.0, 40.0], "q.spacing")
            reg = self.tape.pick([None, (10.0, 90.0, -50.0, 30.0)], "q.region")
            desc, thunk = f"L{li}.grid(region={reg}, spacing={sp})", (lambda: obj.grid(region=reg, spacing=sp))
            if reg is not None:
                variant = lambda: obj.grid(region=(5.0, 85.0, -45.0, 35.0), spacing=sp)  # noqa: E731 - same shape, shifted
        elif kind == "profile":
            desc, thunk = f"L{li}.profile", (lambda: obj.profile((10.0, -40.0), (80.0, 20.0), size=9))
        elif kind == "scatter":
            seed = self.tape.draw(50, "q.seed")
            desc, thunk = f"L{li}.scatter(seed={seed})", (lambda: obj.scatter(size=12, random_state=seed))
        else:
            pool = self.u.datasets[live.ncomp]
            j = self.tape.draw(len(pool), "q.ds")
            ds = pool[j]
            desc, thunk = f"L{li}.score(D{j})", (lambda: obj.score(ds.coordinates, ds.data_arg(), ds.weights_arg()))
        self.trace.append(desc)
        if not live.touched:
            self.probe("predict_before_fit")
            self.must_raise(desc + " before any fit", thunk, "unfitted-object-answers")
            self.after(desc)
            return
        if live.unknown or live.last_fit is None:
            # torn object: no claim on the answer, purity still holds
            try:
                thunk()
            except Exception:  # noqa: B902
                pass
            self.after(desc)
            return
        state = np.random.get_state()
        err = None
        try:
            res = thunk()
        except (Violation, HarnessError):
            raise
        except Exception as e:  # noqa: B902 - judged against the fresh model below
            res, err = None, e
        self.check_rng_untouched(state, desc)
        ref = fresh_model(live)
        fitted_on = self.u.datasets[live.ncomp][live.last_fit]
        ref.fit(fitted_on.coordinates, fitted_on.data_arg(), fitted_on.weights_arg())
        refobj, keep = ref, obj
        ref_err = None
        try:
            obj = refobj  # the thunks close over `obj`
            want = thunk()
        except Exception as e:  # noqa: B902 - e.g. a scorer rejecting NaN predictions outside the convex hull
            want, ref_err = None, e
        finally:
            obj = keep
        if err is not None or ref_err is not None:
            if (err is None) != (ref_err is None):
                ro = err is not None and "read-only" in str(err)
                raise Violation(
                    "rejects-read-only-argument" if ro else "history-dependent",
                    f"{desc}: the history-laden object {'raised ' + type(err).__name__ + ': ' + str(err)[:200] if err is not None else 'answered'} but a fresh one fitted to the last dataset {'raised ' + type(ref_err).__name__ if ref_err is not None else 'answered'}; history {self.short_history(live)}",
                )
            self.probe("query_raises_on_fresh_too")
            self.after(desc)
            return
        scale = max(float(np.max(np.abs(np.concatenate([np.ravel(d) for d in fitted_on.data])))), 1.0)
        ok, dd = same_result(res, want, rtol=RTOL_MODEL, scale=None if kind == "score" else scale)
        if kind == "score":
            ok = ok or dd <= 1e-7
        if not ok:
            raise Violation("history-dependent", f"{desc}: differs from the same call on a fresh object fitted to the last dataset (rel. diff {dd:.3g}); history {self.short_history(live)}")
        pristine = copy.deepcopy(res)
        if self.scribble(res):
            # the caller overwrote what it was given back: the estimator must not have handed out its own state
            again = self.must(desc + " (again)", thunk)
            ok, dd = same_result(again, pristine, rtol=RTOL_REPEAT)
            if not ok:
                raise Violation("not-repeatable", f"{desc}: after the caller overwrote the arrays it had been given back, the same call returned a different result (rel. diff {dd:.3g})")
            res = again
        self.u.remember(desc, res)
        self.last_query = (desc, thunk, pristine, obj)
        if variant is not None:
            # the very next call, same output shape, other points: the result the caller still holds must not change
            self.must(desc + " [same-shape variant]", variant)
            self.probe("same_shape_query_right_after")
        self.after(desc)
        self.compare_model(live, desc + " (after the caller overwrote the returned arrays)")

    def check_rng_untouched(self, state, where):
        now = np.random.get_state()
        if not (state[0] == now[0] and np.array_equal(state[1], now[1]) and state[2:] == now[2:]):
            # not forbidden by the statement (only repeatability is): recorded, not judged
            self.probe("global_rng_advanced_by_seeded_or_pure_call")

    def scribble(self, result):
        """The caller overwrites, in place, the arrays a call returned to it (they are the caller's now)."""
        n = 0
        for a in arrays_of(result):
            if isinstance(a, np.ndarray) and a.flags.writeable and a.size and not any(a is g[0] or np.shares_memory(a, g[0]) for g in self.u.guard.items):
                if a.dtype.kind == "b":
                    a[...] = ~a
                elif a.dtype.kind in "fiu":
                    a[...] = 77
                else:
                    continue
                n += 1
        if n:
            self.probe("caller_overwrote_returned_arrays")
            self.u.results = []  # the remembered results were just changed on purpose
        return n

    def op_repeat(self):
        if self.last_query is None:
            return
        desc, thunk, first, _ = self.last_query
        self.trace.append(f"repeat [{desc}]")
        if self.tape.coin(0.5, "repeat.perturb"):
            np.random.seed(self.tape.draw(1000, "repeat.reseed"))
            np.random.rand(self.tape.draw(5, "repeat.advance"))
            self.fire("global_rng_perturbed")
        again = self.must(self.trace[-1], thunk)
        ok, d = same_result(again, first, rtol=RTOL_REPEAT)
        self.maxdiff["repeat"] = max(self.maxdiff.get("repeat", 0.0), d if np.isfinite(d) else 0.0)
        if not ok:
            raise Violation("not-repeatable", f"repeating [{desc}] with the same arguments returned a different result (rel. diff {d:.3g})")
        self.after(self.trace[-1])

    def op_copy(self, li, live):
        self.last_query = None  # a state-changing operation: the previous answer need not repeat
        from sklearn.base import clone

        kind = self.tape.weighted([("clone", 2), ("set_params", 2), ("pickle", 2)], "copy.kind")
        self.flags["copy"] = True
        self.trace.append(f"L{li}.{kind}")
        obj = live.obj
        if kind == "clone":
            params = freeze_params(obj)
            new = self.must(self.trace[-1], lambda: clone(obj))
            if freeze_params(new) != params or type(new) is not type(obj):
                raise Violation("clone-differs", f"{self.trace[-1]}: clone has different parameters")
            if freeze_params(obj) != params:
                raise Violation("clone-differs", f"{self.trace[-1]}: cloning changed the original's parameters")
            if live.last_fit is not None and not live.unknown and live.spec[0] != "vspline":
                # the clone is a separate estimator: fitting it (to other data) must not disturb the original,
                # e.g. through step/component objects shared between the two
                pool = self.u.datasets[live.ncomp]
                other = pool[(live.last_fit + 1) % len(pool)]
                before = observe(obj, self.u.queries[0])
                self.must(self.trace[-1] + ": fitting the clone", lambda: new.fit(other.coordinates, other.data_arg(), other.weights_arg()))
                ok, _ = same_result(observe(obj, self.u.queries[0]), before, rtol=RTOL_REPEAT)
                if not ok:
                    raise Violation("clone-differs", f"{self.trace[-1]}: fitting the clone changed what the original estimator predicts (shared state)")
                new = self.must(self.trace[-1], lambda: clone(obj))
                self.probe("clone_fitted_original_unchanged")
            if self.tape.coin(0.5, "copy.continue_on_clone"):
                live.obj = new
                live.last_fit, live.unknown, live.touched = None, False, False
                if live.spec[0] == "vspline" and live.vs_force is None and live.vs_maybe:
                    pass  # an interrupted first fit may have set the parameter; the clone carries whatever it is
                self.trace[-1] += " -> continue on the clone"
        elif kind == "set_params":
            before = None
            if live.last_fit is not None and not live.unknown:
                before = observe(obj, self.u.queries[0])
            params = obj.get_params()
            frozen = freeze_params(obj)
            out = self.must(self.trace[-1], lambda: obj.set_params(**params))
            if out is not obj:
                raise Violation("set-params", f"{self.trace[-1]}: set_params did not return the estimator")
            if freeze_params(obj) != frozen:
                raise Violation("set-params", f"{self.trace[-1]}: get_params changed after set_params(**get_params())")
            if before is not None:
                ok, _ = same_result(observe(obj, self.u.queries[0]), before, rtol=RTOL_REPEAT)
                if not ok:
                    raise Violation("set-params", f"{self.trace[-1]}: predictions changed after set_params(**get_params())")
        else:
            # pickling is not part of C20's statement (get_params/clone are): a failure here is recorded, and
            # the history simply continues on the original object.  (C12 meets pickling at its own seam.)
            try:
                new = pickle.loads(pickle.dumps(obj))
                same = freeze_params(new) == freeze_params(obj)
                if same and live.last_fit is not None and not live.unknown:
                    same, _ = same_result(observe(new, self.u.queries[0]), observe(obj, self.u.queries[0]), rtol=RTOL_REPEAT)
            except Exception:  # noqa: B902
                same = False
            if same:
                live.obj = new
            else:
                self.probe("pickle_round_trip_differs_not_judged")
        self.after(self.trace[-1])
        self.compare_model(live, self.trace[-1])

    def op_reparam(self, li, live):
        """set_params to a NEW value: from the next fit on the object must be a fresh estimator with the new parameters."""
        import copy as _copy

        self.last_query = None
        spec = _copy.deepcopy(live.spec)

        def change(sp, est):
            kind = sp[0]
            if kind == "trend":
                sp[1] = sp[1] % 3 + 1
                est.set_params(degree=sp[1])
                self._changed = (est, "degree", sp[1])
            elif kind == "spline":
                sp[1] = 0.5 if sp[1] is None else sp[1] * 7.0
                est.set_params(damping=sp[1])
                self._changed = (est, "damping", sp[1])
                self._changed = (est, "damping", sp[1])
            elif kind == "knn":
                sp[1] = sp[1] % 4 + 1
                est.set_params(k=sp[1])
                self._changed = (est, "k", sp[1])
            elif kind == "vspline":
                sp[1] = sp[1] * 7.0
                est.set_params(damping=sp[1])
                self._changed = (est, "damping", sp[1])
                self._changed = (est, "damping", sp[1])
            elif kind == "chain":
                return change(sp[1][0], est.steps[0][1])
            elif kind == "vector":
                return change(sp[1][0], est.components[0])
            else:
                return False
            return True

        self.trace.append(f"L{li}.set_params(<new value>)")
        if not self.must(self.trace[-1], lambda: change(spec, live.obj)):
            self.trace[-1] += " (no parameter to change)"
            return
        live.spec = spec
        self.flags["copy"] = True
        self.probe("reparameterised_between_fits")
        est, name, value = self._changed
        if est.get_params(deep=False).get(name) != value:
            raise Violation("set-params", f"{self.trace[-1]}: get_params()[{name!r}] does not report the value just set ({value!r})")
        # what an already fitted object does between set_params and the next fit is not specified
        if live.touched:
            live.unknown = True
        self.after(self.trace[-1])

    def op_perturb(self):
        self.trace.append("perturb global RNG")
        if self.tape.draw(2, "perturb.kind"):
            np.random.seed(self.tape.draw(10000, "perturb.seed"))
        else:
            np.random.rand(self.tape.randint(1, 7, "perturb.n"))
        self.fire("global_rng_perturbed")

    # ------------------------------------------------- seeded random calls
    def op_seeded(self):
        import verde as vd

        kind = self.tape.pick(["scatter_points", "blockkfold", "blockshuffle", "tts", "tts_blocked", "kfold_default_cv", "blockkfold_object", "blockshuffle_object", "cv_object_in_cross_val_score"], "seeded.kind")
        seed = self.tape.draw(1000, "seeded.seed")
        ds = self.u.datasets[1][self.tape.draw(len(self.u.datasets[1]), "seeded.ds")]
        X = np.column_stack([np.ravel(ds.coordinates[0]), np.ravel(ds.coordinates[1])])
        X.setflags(write=False)
        if kind == "scatter_points":
            thunk = lambda: vd.scatter_points((0.0, 10.0, -5.0, 5.0), 9, random_state=seed, extra_coords=[1.5])  # noqa: E731
        elif kind == "blockkfold":
            thunk = lambda: [(a.copy(), b.copy()) for a, b in vd.BlockKFold(spacing=34.0, n_splits=2, shuffle=True, random_state=seed).split(X)]  # noqa: E731
        elif kind == "blockshuffle":
            thunk = lambda: [(a.copy(), b.copy()) for a, b in vd.BlockShuffleSplit(spacing=25.0, n_splits=3, test_size=0.3, random_state=seed).split(X)]  # noqa: E731
        elif kind == "tts":
            thunk = lambda: vd.train_test_split(ds.coordinates, ds.data_arg(), ds.weights_arg(), random_state=seed, test_size=0.3)  # noqa: E731
        elif kind == "tts_blocked":
            thunk = lambda: vd.train_test_split(ds.coordinates, ds.data_arg(), ds.weights_arg(), random_state=seed, test_size=0.4, spacing=25.0)  # noqa: E731
        elif kind == "blockkfold_object":
            # ONE splitter object used again and again: its splits must not depend on how often it was used
            cvobj = vd.BlockKFold(spacing=34.0, n_splits=2, shuffle=True, random_state=seed)
            thunk = lambda: [(a.copy(), b.copy()) for a, b in cvobj.split(X)]  # noqa: E731
        elif kind == "blockshuffle_object":
            cvobj = vd.BlockShuffleSplit(spacing=25.0, n_splits=2, test_size=0.3, random_state=seed)
            thunk = lambda: [(a.copy(), b.copy()) for a, b in cvobj.split(X)]  # noqa: E731
        elif kind == "cv_object_in_cross_val_score":
            cvobj = vd.BlockKFold(spacing=34.0, n_splits=2, shuffle=True, random_state=seed)
            thunk = lambda: vd.cross_val_score(vd.Trend(1), ds.coordinates, ds.data_arg(), ds.weights_arg(), cv=cvobj)  # noqa: E731
        else:
            thunk = lambda: vd.cross_val_score(vd.Trend(1), ds.coordinates, ds.data_arg(), ds.weights_arg())  # noqa: E731
        desc = f"{kind}(seed={seed})"
        self.trace.append(desc)
        state = np.random.get_state()
        try:
            first = thunk()
        except ValueError as e:
            # e.g. too few blocks for this dataset: refusing is another property's business, but it must refuse every time
            self.must_raise(desc + " (raised the first time)", thunk, "not-repeatable")
            self.probe("seeded_call_refused")
            del e
            self.after(desc)
            return
        except Exception as e:  # noqa: B902
            raise Violation("unexpected-exception", f"{desc}: raised {type(e).__name__}: {e}") from e
        self.check_rng_untouched(state, desc)
        np.random.seed(self.tape.draw(1000, "seeded.reseed"))
        np.random.rand(self.tape.draw(4, "seeded.advance"))
        self.fire("global_rng_perturbed")
        again = self.must(desc, thunk)
        ok, d = same_result(again, first, rtol=RTOL_REPEAT)
        if not ok:
            raise Violation("not-repeatable", f"{desc}: the same arguments and random_state gave a different result after the global RNG was perturbed")
        self.u.remember(desc, first)
        self.last_query = (desc, thunk, first, None)
        self.after(desc)

    # --------------------------------------------------- stateless functions
    def op_function(self):
        import verde as vd

        u = self.u
        ds = u.datasets[1][self.tape.draw(len(u.datasets[1]), "fn.ds")]
        other = u.datasets[1][(u.datasets[1].index(ds) + 1) % len(u.datasets[1])]
        region = (0.0, 100.0, -60.0, 40.0)
        name = self.tape.pick(FUNCTIONS, "fn.name")
        g = u.guard
        if name in ("blockreduce", "blockmean", "blockmean_weights", "blockmean_uncertainty"):
            self.block_object_history(name, ds, other)
            return
        # same-shape, different-content variant of the dataset: a call on it between two identical
        # calls must not disturb what the first one returned (scratch buffers, caches keyed by shape)
        alt_ro = bool(self.tape.draw(2, "fn.alt_ro"))
        alt_c = g.add_all(tuple(np.ascontiguousarray(np.ravel(x)[::-1]).reshape(x.shape) * 0.9 + 3.0 for x in ds.coordinates), alt_ro)
        alt_d = g.add(np.ascontiguousarray(np.ravel(ds.data[0])[::-1]).reshape(ds.data[0].shape) * -1.5, alt_ro)
        pix = bool(self.ops % 2)
        interruptible = name != "project_grid"
        snap_grid = []
        # regions, spacings, sizes, centres and points are argument arrays too: half of the calls pass them as
        # numpy arrays (guarded, read-only or writable) instead of tuples/lists
        as_arrays = bool(self.tape.draw(2, "fn.array_args"))
        ro = bool(self.tape.draw(3, "fn.array_args_ro"))

        def A(values):
            return g.add(np.array(values, dtype=float), readonly=ro) if as_arrays else values

        class _G:  # extra argument arrays built for this call: read-only or writable like the rest
            add = staticmethod(lambda a: g.add(a, readonly=ro))
            add_all = staticmethod(lambda arrs: g.add_all(arrs, readonly=ro))

        gx = _G

        region = A(region)

        def make(c, d, k):
            """k = 0 for the real call, 1 for the variant (used where an argument is not an array)."""
            sub_region = A((20.0, 70.0, -30.0, 20.0))
            pad = A((5.0 + k, 10.0))
            spacing2 = A((20.0, 25.0))
            point1, point2 = A((1.0 + k, 2.0)), A((9.0, -4.0))
            center, sizes = A((50.0, -10.0)), A([30.0, 60.0])
            # a geographic region whose west/east bounds move when brought to the coordinates' convention
            lon_region = A(self.lon_regions[k])
            if name == "variance_to_weights":
                var = gx.add(np.where(np.arange(d.size) % 5 == 0, np.nan, np.abs(np.ravel(d)) * 0.01 + 1e-3).reshape(d.shape))
                return lambda: vd.variance_to_weights(var)
            if name == "variance_to_weights_tuple":
                var = gx.add(np.abs(np.ravel(d)) + 0.5)
                var2 = gx.add(np.where(np.arange(d.size) % 3 == 0, 0.0, 2.0 + k))
                return lambda: vd.variance_to_weights((var, var2))
            if name == "block_split":
                return lambda: vd.block_split(c, spacing=25.0)
            if name == "inside":
                return lambda: vd.inside(c, sub_region)
            if name == "get_region":
                return lambda: vd.get_region(c)
            if name == "pad_region":
                return lambda: vd.pad_region(region, pad)
            if name == "grid_coordinates":
                return lambda: vd.grid_coordinates(region, spacing=spacing2, extra_coords=3.0 + k, pixel_register=pix)
            if name == "line_coordinates":
                return lambda: vd.line_coordinates(-3.0, 12.0 + k, spacing=2.5, pixel_register=pix)
            if name == "grid_coordinates_1d":
                return lambda: vd.grid_coordinates(region, shape=(5, 6 + k), meshgrid=False)
            if name == "profile_coordinates":
                return lambda: vd.profile_coordinates(point1, point2, size=7)
            if name == "rolling_window":
                return lambda: vd.rolling_window(c, size=50.0, spacing=25.0, region=region)
            if name == "expanding_window":
                return lambda: vd.expanding_window(c, center=center, sizes=sizes)
            if name == "longitude_continuity":
                lon = gx.add(c[0] * 3.6 - (180.0 if self.lon_shift else 0.0))
                return lambda: vd.longitude_continuity((lon, c[1]), lon_region)
            if name == "median_distance":
                return lambda: vd.median_distance(c, k_nearest=2)
            if name == "distance_mask":
                gc = gx.add_all(vd.grid_coordinates(region, spacing=20.0))
                return lambda: vd.distance_mask(c, 15.0, coordinates=gc)
            if name == "convexhull_mask":
                gc = gx.add_all(vd.grid_coordinates(region, spacing=20.0))
                return lambda: vd.convexhull_mask(c, coordinates=gc)
            if name == "make_xarray_grid":
                gc = gx.add_all(vd.grid_coordinates(region, spacing=25.0))
                gd = gx.add(gc[0] * (2 + k) - gc[1])
                return lambda: vd.make_xarray_grid(gc, gd, data_names="z")
            if name == "grid_to_table":
                gc = vd.grid_coordinates(region, spacing=25.0)
                grid = vd.make_xarray_grid(gc, gc[0] * (2 + k) - gc[1], data_names="z")
                snap_grid.append((grid.z, grid.z.values.copy()))
                return lambda: vd.grid_to_table(grid)
            if name == "maxabs":
                return lambda: vd.maxabs(d, other.data[0])
            if name == "project_region":
                return lambda: vd.project_region(region, lambda x, y: (x * (2.0 + k), y * 0.5))
            if name == "project_grid":
                gc = vd.grid_coordinates(region, spacing=25.0)
                grid = vd.make_xarray_grid(gc, gc[0] * (2 + k) - gc[1], data_names="z").z
                snap_grid.append((grid, grid.values.copy()))
                return lambda: vd.project_grid(grid, lambda x, y, inverse=False: (x * 0.5, y * 0.5) if not inverse else (x * 2.0, y * 2.0))
            if name == "checkerboard":
                return lambda: vd.synthetic.CheckerBoard(region=region, w_east=30.0).predict(c)
            if name == "check_fit_input":
                from verde.base.utils import check_fit_input

                w = ds.weights[0] if ds.weights is not None else None
                return lambda: check_fit_input(c, d, w)
            raise HarnessError(name)

        self.lon_shift = bool(self.tape.draw(2, "fn.lon_shift"))
        self.lon_regions = [(-160.0, -150.0, -60.0, 40.0), (-170.0, -20.0, -60.0, 40.0)] if self.tape.draw(2, "fn.lon_region") else [(0.0, 360.0, -60.0, 40.0), (-180.0, 180.0, -60.0, 40.0)]
        thunk = make(ds.coordinates, ds.data[0], 0)
        variant = make(alt_c, alt_d, 1)
        desc = f"{name}(D{u.datasets[1].index(ds)})"
        self.trace.append(desc)
        if interruptible and self.tape.coin(0.2, "fn.interrupt"):
            k = self.tape.draw(12, "fn.k")
            try:
                with CallPoints(interrupt_at=k) as cp:
                    thunk()
            except SimInterrupt:
                self.fire("interrupt")
                self.u.check_purity(f"{desc} interrupted at call {k} ({cp.fired})")
            except (Violation, HarnessError):
                raise
            except Exception as e:  # noqa: B902
                ro = "read-only" in str(e)
                raise Violation("rejects-read-only-argument" if ro else "unexpected-exception", f"{desc}: raised {type(e).__name__}: {str(e)[:300]}") from e
        state = np.random.get_state()
        first = self.must(desc, thunk)
        self.check_rng_untouched(state, desc)
        self.u.remember(desc, first)
        pristine = copy.deepcopy(first)
        self.must(desc + " [same-shape variant]", variant)
        self.u.check_aliasing(desc + " followed by the same call on other same-shape arguments")
        scribbled = self.scribble(first)
        again = self.must(desc, thunk)
        ok, dd = same_result(again, pristine, rtol=RTOL_REPEAT)
        if not ok:
            raise Violation(
                "not-repeatable",
                f"{desc}: calling it again with the same arguments (after a call with other arguments"
                + (" and after the caller overwrote the arrays it had been given back" if scribbled else "")
                + f") gave a different result (rel. diff {dd:.3g})",
            )
        first = again
        for arr, snap in snap_grid:
            if not np.array_equal(snap, arr.values):
                raise Violation("argument-array-modified", f"{desc}: the grid passed in was modified")
        self.last_query = (desc, thunk, first, None)
        self.after(desc)

    def block_object_history(self, name, ds, other):
        """One reducer object used on alternating datasets: outputs must not depend on the earlier calls."""
        import verde as vd

        def make():
            if name == "blockreduce":
                return vd.BlockReduce(np.median, spacing=25.0)
            if name == "blockmean_uncertainty":
                return vd.BlockMean(spacing=25.0, uncertainty=True)
            return vd.BlockMean(spacing=25.0)

        def args(x):
            wts = x.weights[0] if x.weights is not None else None
            if name == "blockreduce":
                return (x.coordinates, x.data[0])
            if name == "blockmean":
                return (x.coordinates, x.data[0])
            if wts is None:
                wts = self.u.guard.add(1.0 / (1.0 + np.abs(np.ravel(x.data[0]))).reshape(x.data[0].shape))
            return (x.coordinates, x.data[0], wts)

        desc = f"{name}: one object filtering D, D', D"
        self.trace.append(desc)
        red = make()
        a1 = self.must(desc, lambda: red.filter(*args(ds)))
        self.u.check_purity(desc)
        self.must(desc, lambda: red.filter(*args(other)))
        a2 = self.must(desc, lambda: red.filter(*args(ds)))
        fresh = self.must(desc, lambda: make().filter(*args(ds)))
        ok1, _ = same_result(a2, a1, rtol=RTOL_REPEAT)
        ok2, _ = same_result(a1, fresh, rtol=RTOL_REPEAT)
        if not ok1 or not ok2:
            raise Violation("history-dependent", f"{desc}: the output for D depends on the calls made before")
        self.u.remember(desc, a1)
        self.after(desc)

    def op_invalid(self):
        """Single inconsistencies in non-fit arguments: must be rejected with an error."""
        import verde as vd

        u = self.u
        ds = u.datasets[1][0]
        c, d = ds.coordinates, ds.data[0]
        region = (0.0, 100.0, -60.0, 40.0)
        bad_region = (100.0, 0.0, -60.0, 40.0)
        bad_region2 = (0.0, 100.0, 40.0, -60.0)
        cases = {
            "grid_coordinates(neither shape nor spacing)": lambda: vd.grid_coordinates(region),
            "grid_coordinates(both shape and spacing)": lambda: vd.grid_coordinates(region, shape=(3, 3), spacing=10.0),
            "grid_coordinates(W>E)": lambda: vd.grid_coordinates(bad_region, spacing=10.0),
            "grid_coordinates(S>N)": lambda: vd.grid_coordinates(bad_region2, shape=(4, 4)),
            "line_coordinates(neither)": lambda: vd.line_coordinates(0.0, 10.0),
            "line_coordinates(both)": lambda: vd.line_coordinates(0.0, 10.0, size=3, spacing=1.0),
            "block_split(neither)": lambda: vd.block_split(c),
            "BlockReduce(neither).filter": lambda: vd.BlockReduce(np.mean).filter(c, d),
            "BlockMean(neither).filter": lambda: vd.BlockMean().filter(c, d),
            "rolling_window(neither)": lambda: vd.rolling_window(c, size=30.0),
            "BlockKFold(neither)": lambda: list(vd.BlockKFold().split(np.column_stack([np.ravel(c[0]), np.ravel(c[1])]))),
            "BlockShuffleSplit(neither)": lambda: list(vd.BlockShuffleSplit().split(np.column_stack([np.ravel(c[0]), np.ravel(c[1])]))),
            "inside(W>E)": lambda: vd.inside(c, bad_region),
            "scatter_points(W>E)": lambda: vd.scatter_points(bad_region, 5, random_state=0),
            "Trend.grid(W>E)": lambda: vd.Trend(1).fit(c, d).grid(region=bad_region, spacing=20.0),
            "Trend.grid(both)": lambda: vd.Trend(1).fit(c, d).grid(region=region, spacing=20.0, shape=(3, 3)),
            "Trend.grid(neither)": lambda: vd.Trend(1).fit(c, d).grid(region=region),
            "BlockReduce.filter(data shape)": lambda: vd.BlockReduce(np.mean, spacing=20.0).filter(c, np.ravel(d)[:-1]),
            "BlockReduce.filter(weight count)": lambda: vd.BlockReduce(np.average, spacing=20.0).filter(c, d, (np.ones(d.shape), np.ones(d.shape))),
            "train_test_split(data shape)": lambda: vd.train_test_split(c, np.ravel(d)[:-1], random_state=0),
            "train_test_split(weight count)": lambda: vd.train_test_split(c, d, (np.ones(d.shape), np.ones(d.shape)), random_state=0),
            "train_test_split(both)": lambda: vd.train_test_split(c, d, spacing=20.0, shape=(3, 3), random_state=0),
            "block_split(both)": lambda: vd.block_split(c, spacing=20.0, shape=(3, 3)),
            "block_split(W>E)": lambda: vd.block_split(c, spacing=20.0, region=bad_region),
            "BlockReduce(both).filter": lambda: vd.BlockReduce(np.mean, spacing=20.0, shape=(3, 3)).filter(c, d),
            "BlockReduce(W>E).filter": lambda: vd.BlockReduce(np.mean, spacing=20.0, region=bad_region).filter(c, d),
            "BlockReduce.filter(coordinate shapes)": lambda: vd.BlockReduce(np.mean, spacing=20.0).filter((np.ravel(c[0]), np.ravel(c[1])[:-1]), np.ravel(d)),
            "BlockMean(both).filter": lambda: vd.BlockMean(spacing=20.0, shape=(3, 3)).filter(c, d),
            "BlockMean.filter(data shape)": lambda: vd.BlockMean(spacing=20.0).filter(c, np.ravel(d)[:-1]),
            "BlockMean.filter(weight size)": lambda: vd.BlockMean(spacing=20.0).filter(c, d, np.ones(d.size - 1)),
            "rolling_window(both)": lambda: vd.rolling_window(c, size=30.0, spacing=20.0, shape=(3, 3)),
            "rolling_window(third coordinate shape)": lambda: vd.rolling_window((np.ravel(c[0]), np.ravel(c[1]), np.ones(d.size - 1)), size=30.0, spacing=20.0),
            "expanding_window(third coordinate shape)": lambda: vd.expanding_window((np.ravel(c[0]), np.ravel(c[1]), np.ones(d.size - 1)), center=(50.0, 0.0), sizes=[20.0, 40.0]),
            "block_split(third coordinate shape)": lambda: vd.block_split((np.ravel(c[0]), np.ravel(c[1]), np.ones(d.size - 1)), spacing=20.0),
            "BlockReduce.filter(third coordinate shape)": lambda: vd.BlockReduce(np.mean, spacing=20.0).filter((np.ravel(c[0]), np.ravel(c[1]), np.ones(d.size - 1)), np.ravel(d)),
            "train_test_split(third coordinate shape)": lambda: vd.train_test_split((np.ravel(c[0]), np.ravel(c[1]), np.ones(d.size - 1)), np.ravel(d), random_state=0),
            "rolling_window(coordinate shapes)": lambda: vd.rolling_window((np.ravel(c[0]), np.ravel(c[1])[:-1]), size=30.0, spacing=20.0),
            "BlockKFold(both)": lambda: list(vd.BlockKFold(spacing=20.0, shape=(3, 3)).split(np.column_stack([np.ravel(c[0]), np.ravel(c[1])]))),
            "BlockShuffleSplit(both)": lambda: list(vd.BlockShuffleSplit(spacing=20.0, shape=(3, 3)).split(np.column_stack([np.ravel(c[0]), np.ravel(c[1])]))),
            "Trend.scatter(W>E)": lambda: vd.Trend(1).fit(c, d).scatter(region=bad_region, size=5, random_state=0),
            "Trend.grid(S>N)": lambda: vd.Trend(1).fit(c, d).grid(region=bad_region2, spacing=20.0),
            "Trend.score(data shape)": lambda: vd.Trend(1).fit(c, d).score(c, np.ravel(d)[:-1]),
            "Trend.score(weight size)": lambda: vd.Trend(1).fit(c, d).score(c, d, np.ones(d.size - 1)),
            "Trend.filter(data shape)": lambda: vd.Trend(1).filter(c, np.ravel(d)[:-1]),
            "inside(S>N)": lambda: vd.inside(c, bad_region2),
            "project_region(W>E)": lambda: vd.project_region(bad_region, lambda x, y: (x, y)),
            "SplineCV.fit(weight size)": lambda: vd.SplineCV(dampings=(1e-2, 1.0)).fit(c, d, np.ones(d.size - 1)),
            "cross_val_score(data shape)": lambda: vd.cross_val_score(vd.Trend(1), c, np.ravel(d)[:-1]),
            "cross_val_score(weight size)": lambda: vd.cross_val_score(vd.Trend(1), c, d, np.ones(d.size - 1)),
        }
        name = self.tape.pick(sorted(cases), "invalid.which")
        self.trace.append(name + " must raise")
        self.fire("rejected_call")
        self.must_raise(self.trace[-1], cases[name])
        self.after(self.trace[-1])

    # ---------------------------------------------------------------- driver
    def step(self):
        self.ops += 1
        li = self.tape.draw(len(self.lives), "op.live")
        live = self.lives[li]
        op = self.tape.weighted(
            [("fit", 6), ("query", 5), ("repeat", 2), ("reject", 2), ("copy", 2), ("reparam", 1), ("function", 4), ("seeded", 2), ("perturb", 1), ("invalid", 2)],
            "op",
        )
        if op == "fit":
            self.op_fit(li, live)
        elif op == "query":
            self.op_query(li, live)
        elif op == "repeat":
            self.op_repeat()
        elif op == "reject":
            self.op_reject(li, live)
        elif op == "copy":
            self.op_copy(li, live)
        elif op == "reparam":
            self.op_reparam(li, live)
        elif op == "function":
            self.op_function()
        elif op == "seeded":
            self.op_seeded()
        elif op == "perturb":
            self.op_perturb()
        else:
            self.op_invalid()


FUNCTIONS = [
    "line_coordinates", "grid_coordinates_1d", "variance_to_weights", "variance_to_weights_tuple", "block_split", "inside", "get_region", "pad_region", "grid_coordinates",
    "profile_coordinates", "rolling_window", "expanding_window", "longitude_continuity", "median_distance", "distance_mask",
    "convexhull_mask", "make_xarray_grid", "grid_to_table", "maxabs", "project_region", "project_grid", "blockreduce", "blockmean",
    "blockmean_weights", "blockmean_uncertainty", "checkerboard", "check_fit_input",
]


def run(tape, opts=None):
    opts = opts or {}
    warnings.resetwarnings()
    warnings.simplefilter("ignore")
    np.random.seed(tape.draw(1 << 31, "global_rng"))
    h = History(tape, opts)
    nops = tape.randint(6, 16, "nops")
    try:
        for _ in range(nops):
            h.step()
    except Violation as v:
        v.trace = {"universe": [lv.spec for lv in h.lives], "datasets": {k: [d.desc for d in v2] for k, v2 in h.u.datasets.items()}, "history": h.trace}
        raise
    finally:
        if sys.gettrace() is not None:
            sys.settrace(None)
    nontrivial = any(h.flags.values())
    return {
        "op": "history",
        "probes": dict(h.probes, **({"result_changed_after_return_not_judged": len(h.u.aliased)} if h.u.aliased else {})),
        "fired": h.fired,
        "extra": {"operations": h.ops},
        "maxdiff": h.maxdiff,
        "sample": {"universe": [lv.spec for lv in h.lives], "history": h.trace},
        "steps": h.ops,
        "yields": 0,
        "states": {hash64(t.split("(")[0] + str(i % 4)) for i, t in enumerate(h.trace)},
        "interleaving": hash64(repr([t.split(" ")[0] for t in h.trace])),
        "log_digest": str(hash64(repr(h.trace))),
        "nontrivial": nontrivial,
    }


__all__ = ["run", "REDUCTIONS"]
