"""
C19 - load_surfer returns the file's grid faithfully or refuses it; handles it
opened are closed on every exit.

One run = one generated Surfer ASCII grid on a simulated disk, then
 (1) clean loads by path and by handle (must agree),
 (2) EVERY in-flight fault position: each read call of the load x {EIO, early
     EOF, interrupt}, for path and for handle input (exhaustive per file),
 (3) stored-byte faults drawn from the tape (truncation, flipped / dropped /
     duplicated characters, line drop / dup / swap, re-wrapped rows, header
     field corruptions; thorough: the fixed list of all single-header
     corruptions), each loaded by path or handle with an optional in-flight fault,
 (4) a short history on one disk (failed load, retry on the half-consumed
     handle, other file in between).
The oracle is an independent parser applied to the bytes actually delivered.
See DESIGN.md section 3 (C19).
"""
import errno
import os
import pathlib
import re
import sys
import warnings

import numpy as np

from ..inject import CallPoints, SimInterrupt
from ..sched import HarnessError, Violation, hash64
from ..simfs import SimDisk

PROPERTY = "C19"
LEVEL = "fault_enumeration"
TIERS = {"quick": {"runs": 5000, "wall": 300}, "thorough": {"runs": 60000, "wall": 1800}}
BLANK = 1.70141e38
STRICT_FLOAT = re.compile(r"^[+-]?(\d+\.?\d*|\.\d+)([eE][+-]?\d+)?$")
STRICT_INT = re.compile(r"^[+-]?\d+$")

RULE = (
    "Each run generates one Surfer ASCII grid (2-7 rows x 2-8 columns, values of mixed magnitude/sign/repeats, blank sentinels, "
    "five number formats, space/tab separators, indentation, trailing blank lines, CRLF, float64/float32) on a simulated disk and "
    "then (a) loads it cleanly by path and by handle, (b) enumerates EVERY in-flight fault position = each read call of the load x "
    "{EIO, premature EOF, interrupt} for both path and handle input, plus open() failures and interrupts at each verde call point, "
    "(c) applies seeded stored-byte faults (truncation at a byte, flipped/dropped/duplicated character, dropped/duplicated/swapped line, "
    "re-wrapped rows with and without a matching header, ragged rows, every single-header-field corruption), (d) runs a 3-5 operation "
    "history on the same disk including retries on half-consumed handles. A case = one load operation (file text + input kind + fault); "
    "non-trivial = a fault fired or a stored-byte corruption was applied or the file has blanks/wrapped rows; distinct = distinct "
    "(delivered text, input kind, dtype, fault) digests. In-flight positions are exhaustive per file; file contents and stored-byte faults are sampled."
)
ASSUMPTIONS = [
    "numpy.loadtxt and xarray are real code reading from the stub stream; their own correctness is trusted",
    "the reference parser demands loading only for files whose every token is in a strict decimal grammar and whose header range equals the body's min/max as written; "
    "it demands refusal only for shape disagreements, range disagreements beyond 1e-3 relative (+1e-6), missing header lines, or a fired I/O error/interrupt; everything else is EITHER",
    "grids delivered with fewer than two rows or columns, all-blank grids, values within 1e-6 of the blank threshold and non-finite header numbers are EITHER (outside the property's quantifier)",
    "handle leaks are observed through the open() seam (builtins.open / io.open); code that bypasses it still reads the right bytes from a real scratch file but cannot be fault-injected",
    "file contents and stored-byte faults are sampled; in-flight fault positions are enumerated per file",
]
COMPONENTS = {
    "real": ["verde.io.load_surfer (from the /repo working tree)", "numpy.loadtxt", "xarray.DataArray"],
    "stub": ["files / open() / file objects -> SimDisk / SimFile (real scratch copy kept in /dev/shm for seam bypass)"],
}


# ------------------------------------------------------------ file generator
class GridFile:
    """Structured Surfer file: header fields as *text tokens*, body as rows of tokens."""

    def __init__(self):
        self.gid = "DSAA"
        self.counts = ["2", "2"]
        self.sn = ["0", "1"]
        self.we = ["0", "1"]
        self.zr = ["0", "1"]
        self.rows = []
        self.sep = " "
        self.indent = ""
        self.eol = "\n"
        self.trailer = ""
        self.header_indent = ""

    def copy(self):
        g = GridFile()
        g.__dict__.update({k: (list(v) if isinstance(v, list) else v) for k, v in self.__dict__.items()})
        g.rows = [list(r) for r in self.rows]
        return g

    def render(self):
        hi = self.header_indent
        lines = [
            hi + self.gid,
            hi + self.sep.join(self.counts),
            hi + self.sep.join(self.sn),
            hi + self.sep.join(self.we),
            hi + self.sep.join(self.zr),
        ]
        lines += [self.indent + self.sep.join(r) for r in self.rows]
        return self.eol.join(lines) + self.eol + self.trailer


def fmt_value(v, style):
    if style == "repr":
        return repr(float(v))
    if style == "g":
        return "%g" % v
    if style == "f3":
        return "%.3f" % v if abs(v) < 1e15 else "%g" % v
    if style == "e":
        return "%e" % v
    if style == "E10":
        return "%.10E" % v
    if style == "int":
        return "%d" % int(round(v)) if abs(v) < 1e15 else "%g" % v
    if style == "plus":
        return "%+.6g" % v
    if style == "g17":
        return "%.17g" % v
    if style == "f12":
        return "%.12f" % v if abs(v) < 1e12 else "%.17g" % v
    raise ValueError(style)


BLANK_TOKENS = ["1.70141e38", "1.70141e+38", "1.70141E+038", "1.8e38", "3e38", "170141000000000000000000000000000000000"]


def gen_grid(tape):
    g = GridFile()
    nr = tape.randint(2, 7, "nrows")
    nc = tape.randint(2, 8, "ncols")
    if tape.coin(0.04, "big_grid"):
        nr, nc = tape.randint(20, 60, "nrows_big"), tape.randint(20, 80, "ncols_big")
    rs = np.random.RandomState(tape.subseed("values"))
    mag = tape.weighted([("moderate", 5), ("ints", 2), ("mixed", 2), ("huge", 1), ("tiny", 1), ("repeats", 2), ("extreme", 1)], "magnitude")
    if mag == "moderate":
        vals = rs.uniform(-1000, 1000, (nr, nc))
    elif mag == "ints":
        vals = rs.randint(-50, 50, (nr, nc)).astype(float)
    elif mag == "mixed":
        vals = rs.uniform(-1, 1, (nr, nc)) * 10.0 ** rs.randint(-8, 9, (nr, nc))
    elif mag == "huge":
        vals = rs.uniform(-1, 1, (nr, nc)) * 10.0 ** rs.randint(25, 37, (nr, nc))
    elif mag == "tiny":
        vals = rs.uniform(-1, 1, (nr, nc)) * 10.0 ** rs.randint(-40, -20, (nr, nc))
    elif mag == "extreme":
        # finite values beyond the blank sentinel's magnitude on the NEGATIVE side (only >= +1.70141e38 is blank)
        vals = rs.uniform(-1, 1, (nr, nc)) * 10.0 ** rs.randint(30, 38, (nr, nc))
        vals[rs.randint(0, nr), rs.randint(0, nc)] = -rs.choice([1.70141e38, 2.5e38, 1e300, 1.797e308])
        vals = np.where(vals >= 1.7e38, 1e37, vals)
    else:
        pool = rs.uniform(-100, 100, 3)
        vals = pool[rs.randint(0, 3, (nr, nc))]
    style = tape.pick(["repr", "g", "f3", "e", "E10", "int", "plus", "g17", "f12"], "format")
    rows = [[fmt_value(v, style) for v in row] for row in vals]
    # blanks
    nblank = tape.weighted([(0, 4), (1, 2), (2, 1), (-1, 1)], "nblank")
    if nblank == -1:
        nblank = tape.randint(1, nr * nc - 1, "nblank.many")
    cells = [(i, j) for i in range(nr) for j in range(nc)]
    blanks = set()
    for b in range(min(nblank, nr * nc - 1)):
        c = cells.pop(tape.draw(len(cells), f"blank{b}"))
        blanks.add(c)
        rows[c[0]][c[1]] = tape.pick(BLANK_TOKENS, f"blank{b}.tok")
    g.rows = rows
    written = [float(t) for i, r in enumerate(rows) for j, t in enumerate(r) if (i, j) not in blanks]
    g.zr = [repr(min(written)), repr(max(written))]
    g.counts = [str(nr), str(nc)]
    s, n = sorted(rs.uniform(-90, 90, 2).round(3))
    w, e = sorted(rs.uniform(-180, 180, 2).round(3))
    rstyle = tape.pick(["repr", "g", "int"], "region.format")
    if rstyle == "int":
        s, n, w, e = float(int(s)), float(int(s)) + nr + 1, float(int(w)), float(int(w)) + nc + 2
    g.sn = [fmt_value(s, rstyle), fmt_value(n, rstyle)]
    g.we = [fmt_value(w, rstyle), fmt_value(e, rstyle)]
    g.gid = tape.pick(["DSAA", "DSAA ", "  DSAA", "GRID7", "dsaa v2"], "gid")
    g.sep = tape.pick([" ", "  ", "\t", " \t "], "sep")
    g.indent = tape.pick(["", "", " ", "\t", "   "], "indent")
    g.header_indent = tape.pick(["", "", " "], "hindent")
    g.eol = tape.pick(["\n", "\n", "\r\n"], "eol")
    g.trailer = tape.pick(["", "", "\n", "\n\n", "  \n"], "trailer")
    dtype = tape.pick(["float64", "float32"], "dtype")
    if mag == "extreme":
        dtype = "float64"  # beyond float32's range
    desc = {"shape": [nr, nc], "magnitude": mag, "format": style, "blanks": len(blanks), "sep": g.sep, "eol": g.eol, "dtype": dtype}
    return g, dtype, desc


# --------------------------------------------------------- reference parser
def split_lines(text):
    text = text.replace("\r\n", "\n").replace("\r", "\n")
    parts = text.split("\n")
    last = parts.pop()
    return [p + "\n" for p in parts] + ([last] if last else [])


class Verdict:
    def __init__(self, kind, why):
        self.kind = kind  # "load" | "refuse" | "either"
        self.why = why
        self.gid = None
        self.shape = None
        self.region = None
        self.body = None  # 2-D float64 array of the body as written (None if not modelled)
        self.fuzzy = None  # boolean mask of cells whose blank status is not modelled
        self.header_ok = False
        self.wrapped = False

    def __repr__(self):
        return f"<{self.kind}: {self.why}>"


def _f(tok):
    try:
        return float(tok)
    except ValueError:
        return None


def classify(text, dtype):
    """Classify the delivered stream.  Mirrors the property statement, not the implementation."""
    lines = split_lines(text)
    if len(lines) < 5:
        return Verdict("refuse", f"only {len(lines)} header lines delivered")
    hdr = [ln.split() for ln in lines[1:5]]
    body_lines = [ln for ln in lines[5:] if ln.strip()]
    body_tok = [ln.split() for ln in body_lines]
    body_strict = all(STRICT_FLOAT.match(t) for r in body_tok for t in r)
    rect = len({len(r) for r in body_tok}) == 1 if body_tok else False
    v = Verdict("either", "")
    v.gid = lines[0].strip()
    header_ok = (
        len(hdr[0]) == 2
        and all(STRICT_INT.match(t) for t in hdr[0])
        and all(len(h) == 2 and all(STRICT_FLOAT.match(t) for t in h) for h in hdr[1:])
    )
    if not header_ok:
        v.why = "header outside the strict grammar (token count or number syntax): no claim"
        return v
    v.header_ok = True
    shape = (int(hdr[0][0]), int(hdr[0][1]))
    south, north = float(hdr[1][0]), float(hdr[1][1])
    west, east = float(hdr[2][0]), float(hdr[2][1])
    zlo, zhi = float(hdr[3][0]), float(hdr[3][1])
    v.shape = shape
    v.region = (west, east, south, north)
    if not body_strict:
        v.why = "body token outside the strict decimal grammar: no claim"
        return v
    flat = [float(t) for r in body_tok for t in r]
    if shape[0] < 1 or shape[1] < 1 or len(flat) != shape[0] * shape[1]:
        v.kind, v.why = "refuse", f"body has {len(flat)} values in {len(body_tok)} rows, header announces {shape}"
        return v
    wrapped = not (rect and (len(body_tok), len(body_tok[0])) == shape)
    # one grid row per line is the well-formed layout; any other line structure with the right number of
    # values is a wrapped-row layout, which "must load correctly or be refused": if it loads, it is the
    # header's grid filled in file order
    if shape[0] < 2 or shape[1] < 2:
        v.why = "fewer than two rows or columns: outside the quantifier"
        return v
    v.body = np.array(flat, dtype=float).reshape(shape)
    if not all(np.isfinite([south, north, west, east, zlo, zhi])):
        v.why = "header number overflows to inf: no claim"
        return v
    body = v.body
    # the sentinel itself is decided (>=); only neighbours that differ from it are not modelled
    near = (np.abs(body / BLANK - 1.0) < 1e-6) & (body != BLANK)
    v.fuzzy = near
    blank = body >= BLANK
    if near.any():
        v.why = "value within 1e-6 of the blank threshold: no claim on blank status"
        return v
    if blank.all():
        v.why = "all cells blank: header range undefined"
        return v
    vals = body[~blank]
    lo, hi = float(vals.min()), float(vals.max())

    def far(a, b):
        return abs(a - b) > 1e-3 * max(abs(a), abs(b)) + 1e-6

    def same(a, b):
        return abs(a - b) <= 1e-7 * abs(b) + 1e-12

    if far(lo, zlo) or far(hi, zhi):
        v.kind, v.why = "refuse", f"body range [{lo!r}, {hi!r}] disagrees with header [{zlo!r}, {zhi!r}]"
        return v
    if not (same(lo, zlo) and same(hi, zhi)):
        v.why = "range differs inside the grey band: no claim"
        return v
    if wrapped:
        v.why = "wrapped-row layout: must load as the header's grid in file order, or be refused"
        v.wrapped = True
        return v
    v.kind, v.why = "load", "well-formed"
    return v


# ------------------------------------------------------------------ oracles
def check_loaded(result, v, dtype, gid_expected, path, where):
    """The returned object against the model's parse (LOAD: everything; EITHER: what is modelled)."""
    import xarray as xr

    if not isinstance(result, xr.DataArray):
        raise Violation("not-a-dataarray", f"{where}: returned {type(result).__name__}")
    strict = v.kind == "load"
    if v.body is not None:
        if tuple(result.shape) != v.body.shape:
            raise Violation("grid-differs-from-file", f"{where}: returned shape {tuple(result.shape)} but the body delivered is {v.body.shape} ({v.why})")
        got = np.asarray(result.values, dtype=float)
        want = v.body.astype(dtype).astype(float)
        blank = v.body >= BLANK
        fuzzy = v.fuzzy if v.fuzzy is not None else np.zeros_like(blank)
        sure = ~fuzzy
        if not np.array_equal(np.isnan(got)[sure], blank[sure]):
            raise Violation("blank-cells", f"{where}: NaN pattern {np.isnan(got).astype(int).tolist()} but blank (>= 1.70141e38) cells are {blank.astype(int).tolist()}")
        m = sure & ~blank
        ulp = np.spacing(np.abs(want[m]).astype(dtype)).astype(float) if dtype == "float32" else 0.0
        if not np.all(np.abs(got[m] - want[m]) <= ulp):
            raise Violation("grid-differs-from-file", f"{where}: values {got.tolist()} differ from the file's {want.tolist()} (row by row, file order)")
    if not strict:
        return
    if tuple(result.dims) != ("northing", "easting"):
        raise Violation("dims", f"{where}: dims {result.dims}")
    west, east, south, north = v.region
    for name, lo, hi, n in (("northing", south, north, v.shape[0]), ("easting", west, east, v.shape[1])):
        c = np.asarray(result.coords[name].values, dtype=float)
        want_c = lo + (hi - lo) * np.arange(n) / (n - 1)
        tol = 1e-12 * max(abs(lo), abs(hi), abs(hi - lo), 1e-300)
        if c.shape != (n,) or not np.all(np.abs(c - want_c) <= tol) or c[0] != lo or abs(c[-1] - hi) > tol:
            raise Violation("coordinates", f"{where}: {name} = {c.tolist()} but the header spans [{lo}, {hi}] with {n} points")
    if result.attrs.get("gridID") != gid_expected:
        raise Violation("attrs", f"{where}: gridID {result.attrs.get('gridID')!r} != {gid_expected!r}")
    if path is not None:
        if "file" not in result.attrs or os.fspath(result.attrs["file"]) != path:
            raise Violation("attrs", f"{where}: file attribute {result.attrs.get('file')!r} != path {path!r}")
    elif "file" in result.attrs:
        raise Violation("attrs", f"{where}: file attribute present for a file object")


class Loader:
    """Performs load operations on one disk and applies the per-operation oracles."""

    def __init__(self, disk, stats):
        self.disk = disk
        self.stats = stats

    def load(self, name, text, dtype, kind, fault=None, handle=None, open_error=None, interrupt_at=None, where=""):
        """
        kind: "path" | "handle".  fault: (eio|eof|interrupt, k) for the stream.
        Returns (outcome, result_or_exc, handle, verdict).
        """
        from verde import load_surfer

        disk = self.disk
        st = self.stats
        path = disk.path(name)
        reused = handle is not None and handle.read_calls > 0
        pathlike = kind == "pathlib"
        if pathlike:
            kind = "path"
        if kind == "path":
            disk.next_fault = fault
            disk.open_error = open_error
            disk.last_handle = None
            arg = pathlib.Path(path) if pathlike else path
            before_text = text
            d0 = 0
        else:
            if handle is None:
                handle = disk.handle(name, fault=fault)
            else:
                handle.fault = fault
                handle.fired = None
            before_text = handle.remaining_text()
            d0 = len(handle.delivered)
            arg = handle
        opened_before = disk.opened_total
        outcome, res = "returned", None
        try:
            with CallPoints(interrupt_at=interrupt_at) as cp:
                res = load_surfer(arg, dtype=dtype)
        except SimInterrupt as e:
            outcome, res = "raised", e
        except (Violation, HarnessError):
            raise
        except BaseException as e:  # noqa: B902
            outcome, res = "raised", e
        finally:
            disk.next_fault = None
            disk.open_error = None
        st["extra"]["loads"] = st["extra"].get("loads", 0) + 1
        # ---- which stream did the function read, and what was delivered?
        stream = handle if kind == "handle" else disk.last_handle
        fired = stream.fired if stream is not None else None
        if kind == "path" and open_error is not None and disk.opened_total == opened_before and disk.open_error is None:
            fired = ("open_error", 0)
        if cp.fired is not None:
            fired = ("call_interrupt", interrupt_at)
        if stream is not None and fired is not None and fired[0] == "eof":
            delivered = "".join(stream.delivered[d0:])
        elif kind == "handle":
            delivered = before_text
        else:
            delivered = before_text
            if stream is None and open_error is None and cp.fired is None:
                st["probes"]["open_seam_bypassed"] = st["probes"].get("open_seam_bypassed", 0) + 1
        if fired is not None:
            st["fired"][fired[0]] = st["fired"].get(fired[0], 0) + 1
        label = f"{where or kind} load of {name!r} (dtype={dtype}, fault={fault or open_error or (('call', interrupt_at) if interrupt_at is not None else None)}, fired={fired})"
        # ---- handles opened by the function are closed on every exit
        if disk.open_handles:
            leaked = [h.name for h in disk.open_handles]
            for h in list(disk.open_handles):
                h.close()
            raise Violation("handle-leak", f"{label}: {len(leaked)} file(s) opened by load_surfer left open after it {outcome}")
        if kind == "path" and stream is not None and not stream.closed:
            raise HarnessError("inconsistent handle table")
        # ---- verdict
        if fired is not None and fired[0] in ("eio", "interrupt", "open_error", "call_interrupt"):
            v = Verdict("refuse", f"{fired[0]} fired")
            if outcome == "returned":
                # Swallowing the error is only tolerable if everything needed had already been delivered
                # (the failing call was the EOF probe after the last row) and the grid is the file's grid.
                got_all = classify("".join(stream.delivered[d0:]), dtype) if (stream is not None and fired[0] in ("eio", "interrupt")) else None
                if got_all is not None and got_all.kind == "load":
                    check_loaded(res, got_all, dtype, got_all.gid, path if kind == "path" else None, label)
                    st["probes"]["returned_complete_grid_after_late_fault"] = st["probes"].get("returned_complete_grid_after_late_fault", 0) + 1
                    return outcome, res, handle, got_all
                raise Violation("returned-after-io-error", f"{label}: returned data although the read failed ({fired[0]} at {fired[1]}) before a complete well-formed grid had been delivered")
            st["extra"]["refused_fault"] = st["extra"].get("refused_fault", 0) + 1
            return outcome, res, handle, v
        v = classify(delivered, dtype)
        if kind == "handle" and reused:
            # A handle that was already (partly) consumed by an earlier load.  What "the file" is for such a
            # handle is not specified: refusing is fine; if something is returned it must be a faithful load of
            # what was left in the stream or of the whole file (an implementation may rewind) - never anything else.
            st["probes"]["load_from_consumed_handle"] = st["probes"].get("load_from_consumed_handle", 0) + 1
            if outcome == "returned":
                v_full = classify(text, dtype)
                ok_any = False
                for cand in (v, v_full):
                    if cand.kind == "load":
                        try:
                            check_loaded(res, cand, dtype, cand.gid, None, label)
                            ok_any = True
                            break
                        except Violation:
                            pass
                if not ok_any:
                    raise Violation("loaded-inconsistent-file", f"{label}: returned a {tuple(res.shape)} grid from an already consumed handle that is neither the rest of the stream nor the whole file:\n{delivered}")
            return outcome, res, handle, v
        st["extra"]["verdict_" + v.kind] = st["extra"].get("verdict_" + v.kind, 0) + 1
        if v.kind == "load":
            if outcome != "returned":
                raise Violation(
                    "refused-well-formed-file",
                    f"{label}: raised {type(res).__name__}: {str(res)[:200]} for a well-formed file:\n{delivered}",
                )
            check_loaded(res, v, dtype, v.gid, path if kind == "path" else None, label)
        elif v.kind == "refuse":
            if outcome == "returned":
                raise Violation(
                    "loaded-inconsistent-file",
                    f"{label}: returned a {tuple(res.shape)} grid although {v.why}:\n{delivered}",
                )
        else:
            if outcome == "returned":
                st["extra"]["either_returned"] = st["extra"].get("either_returned", 0) + 1
                check_loaded(res, v, dtype, v.gid, None, label)
            else:
                st["extra"]["either_raised"] = st["extra"].get("either_raised", 0) + 1
        case = (delivered, kind, dtype, fired)
        ch = hash64(repr(case))
        st["cases"].add(ch)
        if fired is not None or where.startswith("corrupt") or where.startswith("history"):
            st["nontrivial"].add(ch)
        return outcome, res, handle, v


# ------------------------------------------------------------ stored faults
ALPHABET = "0123456789.-+eE \n\tx,"


def header_corruptions(g):
    """Every single-header-field corruption (fixed list; used exhaustively in the thorough tier)."""
    out = []
    nr, nc = int(g.counts[0]), int(g.counts[1])
    for idx in (0, 1):
        for d in (-1, 1):
            h = g.copy()
            h.counts[idx] = str(int(h.counts[idx]) + d)
            out.append((f"count{idx}{d:+d}", h))
    h = g.copy()
    h.counts = [g.counts[1], g.counts[0]]
    out.append(("counts_swapped", h))
    for field in ("sn", "we", "zr"):
        h = g.copy()
        setattr(h, field, list(reversed(getattr(g, field))))
        out.append((f"{field}_swapped", h))
    h = g.copy()
    h.sn, h.we = g.we, g.sn
    out.append(("region_lines_swapped", h))
    h = g.copy()
    h.sn, h.we, h.zr = g.we, g.zr, g.sn
    out.append(("ranges_shifted_up", h))
    h = g.copy()
    h.sn, h.we, h.zr = g.zr, g.sn, g.we
    out.append(("ranges_shifted_down", h))
    for idx in (0, 1):
        for name, fn in (("x1.01", lambda x: x * 1.01 + 0.01), ("x0.5", lambda x: x * 0.5 - 1.0), ("neg", lambda x: -x - 1.0), ("tiny", lambda x: x * (1 + 1e-9))):
            h = g.copy()
            h.zr[idx] = repr(fn(float(g.zr[idx])))
            out.append((f"zr{idx}_{name}", h))
    h = g.copy()
    h.sn = [g.sn[0], g.sn[0]]
    out.append(("sn_degenerate", h))
    h = g.copy()
    h.zr = [g.zr[0]]
    out.append(("zr_one_field", h))
    h = g.copy()
    h.zr = g.zr + ["0"]
    out.append(("zr_three_fields", h))
    h = g.copy()
    h.counts = g.counts + ["1"]
    out.append(("counts_three_fields", h))
    h = g.copy()
    h.counts = [str(nr * nc)]
    out.append(("counts_one_field", h))
    h = g.copy()
    h.counts = [str(nr) + ".0", str(nc)]
    out.append(("count_float", h))
    return out


def rewrap(g, w, fix_header):
    flat = [t for r in g.rows for t in r]
    h = g.copy()
    h.rows = [flat[i:i + w] for i in range(0, len(flat), w)]
    if fix_header and len(flat) % w == 0:
        h.counts = [str(len(flat) // w), str(w)]
    return h


def draw_corruption(tape, g, i):
    """Returns (name, text)."""
    text = g.render()
    kind = tape.weighted(
        [("truncate", 3), ("flip", 4), ("dropchar", 2), ("dupchar", 1), ("line", 3), ("header", 4), ("rewrap", 3), ("ragged", 2), ("blankcell", 1), ("dropheader", 1)],
        f"c{i}.kind",
    )
    if kind == "truncate":
        b = tape.draw(len(text), f"c{i}.at")
        return f"truncate@{b}", text[:b]
    if kind == "flip":
        p = tape.draw(len(text), f"c{i}.at")
        ch = tape.pick(ALPHABET, f"c{i}.ch")
        return f"flip@{p}->{ch!r}", text[:p] + ch + text[p + 1:]
    if kind == "dropchar":
        p = tape.draw(len(text), f"c{i}.at")
        return f"dropchar@{p}", text[:p] + text[p + 1:]
    if kind == "dupchar":
        p = tape.draw(len(text), f"c{i}.at")
        return f"dupchar@{p}", text[:p] + text[p] + text[p:]
    if kind == "line":
        lines = text.split(g.eol)
        j = tape.draw(max(len(lines) - 1, 1), f"c{i}.line")
        op = tape.pick(["drop", "dup", "swap"], f"c{i}.op")
        if op == "drop":
            del lines[j]
        elif op == "dup":
            lines.insert(j, lines[j])
        elif j + 1 < len(lines):
            lines[j], lines[j + 1] = lines[j + 1], lines[j]
        return f"line-{op}@{j}", g.eol.join(lines)
    if kind == "header":
        opts = header_corruptions(g)
        name, h = opts[tape.draw(len(opts), f"c{i}.which")]
        return "header:" + name, h.render()
    if kind == "rewrap":
        total = len(g.rows) * len(g.rows[0])
        w = tape.randint(1, min(total, 12), f"c{i}.w")
        fix = bool(tape.draw(2, f"c{i}.fix"))
        return f"rewrap@{w}{'+header' if fix else ''}", rewrap(g, w, fix).render()
    if kind == "ragged":
        h = g.copy()
        r = tape.draw(len(h.rows), f"c{i}.row")
        if tape.draw(2, f"c{i}.add"):
            h.rows[r].append(h.rows[r][0])
        else:
            h.rows[r].pop()
        return f"ragged-row{r}", h.render()
    if kind == "blankcell":
        h = g.copy()
        r = tape.draw(len(h.rows), f"c{i}.row")
        c = tape.draw(len(h.rows[0]), f"c{i}.col")
        h.rows[r][c] = tape.pick(BLANK_TOKENS + ["1.70140e38", "1.7014e38", "1.70141e37", "1.70141000918780004e+38", "1.701409e38", "-0.0", "-0", "+0", "-1.70141e38"], f"c{i}.tok")
        return f"blankcell({r},{c})={h.rows[r][c]}", h.render()
    lines = text.split(g.eol)
    j = tape.draw(5, f"c{i}.hline")
    del lines[j]
    return f"dropheader@{j}", g.eol.join(lines)


# ---------------------------------------------------------------------- run
def run(tape, opts=None):
    opts = opts or {}
    thorough = opts.get("tier") == "thorough"
    warnings.resetwarnings()
    warnings.simplefilter("ignore")
    stats = {"probes": {}, "fired": {}, "extra": {}, "cases": set(), "nontrivial": set()}
    g, dtype, desc = gen_grid(tape)
    text = g.render()
    disk = SimDisk()
    trace = {"file": desc, "text": text, "ops": []}
    try:
        with disk:
            L = Loader(disk, stats)
            disk.write("a.grd", text)
            # (1) clean loads; path and handle must agree exactly
            o1, r1, _, v1 = L.load("a.grd", text, dtype, "path", where="clean")
            L.load("a.grd", text, dtype, "pathlib", where="clean")
            h = disk.handle("a.grd")
            o2, r2, _, _ = L.load("a.grd", text, dtype, "handle", handle=h, where="clean")
            if v1.kind != "load":
                raise HarnessError(f"generator produced a file the model does not call well-formed: {v1}\n{text}")
            if not (np.array_equal(r1.values, r2.values, equal_nan=True) and r1.dims == r2.dims and all(np.array_equal(r1.coords[d].values, r2.coords[d].values) for d in r1.dims)):
                raise Violation("path-vs-handle", "the same file loaded from a path and from an open file object differs")
            n_reads = h.read_calls
            stats["extra"]["read_calls_clean"] = n_reads
            # (2) exhaustive in-flight faults
            for kind in ("path", "handle"):
                for fk in ("eio", "eof", "interrupt"):
                    for k in range(n_reads + 1):
                        trace["ops"].append(f"{kind} load with {fk} at read {k}")
                        L.load("a.grd", text, dtype, kind, fault=(fk, k), where="inflight")
                        trace["ops"].pop()
            for err in (errno.ENOENT, errno.EACCES, errno.EMFILE):
                L.load("a.grd", text, dtype, "path", open_error=err, where="inflight")
            with CallPoints() as cp:
                from verde import load_surfer

                load_surfer(disk.handle("a.grd"), dtype=dtype)
            for k in range(cp.count):
                for kind in ("path", "handle"):
                    L.load("a.grd", text, dtype, kind, interrupt_at=k, where="inflight")
            stats["extra"]["inflight_positions_enumerated"] = 2 * 3 * (n_reads + 1) + 3 + 2 * cp.count
            # (3) stored-byte faults
            corruptions = []
            ncorr = (60 if thorough else 14)
            for i in range(ncorr):
                corruptions.append(draw_corruption(tape, g, i))
            if thorough or tape.coin(0.25, "all_header"):
                corruptions += [("header:" + n, hh.render()) for n, hh in header_corruptions(g)]
                stats["probes"]["all_single_header_corruptions"] = 1
            for i, (name, ctext) in enumerate(corruptions):
                fname = f"c{i}.grd"
                disk.write(fname, ctext)
                kind = tape.pick(["handle", "path", "pathlib"], f"c{i}.input")
                fault = None
                if tape.coin(0.25, f"c{i}.inflight"):
                    fault = (tape.pick(["eof", "eio", "interrupt"], f"c{i}.fk"), tape.draw(n_reads + 1, f"c{i}.k"))
                trace["ops"].append(f"{name}: {kind} load fault={fault}")
                stats["extra"]["corrupt_" + name.split("@")[0].split(":")[0].split("(")[0]] = stats["extra"].get("corrupt_" + name.split("@")[0].split(":")[0].split("(")[0], 0) + 1
                out, _, _, v = L.load(fname, ctext, dtype, kind, fault=fault, where="corrupt:" + name)
                if name.startswith("rewrap") and v.kind == "load":
                    stats["probes"]["rewrapped_rows_loaded_as_announced"] = stats["probes"].get("rewrapped_rows_loaded_as_announced", 0) + 1
                if name.startswith("rewrap") and v.kind == "refuse":
                    stats["probes"]["rewrapped_rows_refused"] = stats["probes"].get("rewrapped_rows_refused", 0) + 1
                trace["ops"].pop()
            # (4) a history on one disk: failures, retries on half-consumed handles, other files in between
            g2, dtype2, _ = gen_grid(tape)
            text2 = g2.render()
            disk.write("b.grd", text2)
            handles = {}
            for s in range(tape.randint(3, 5, "history.len")):
                which = tape.pick(["a.grd", "b.grd"], f"h{s}.file")
                t, dt = (text, dtype) if which == "a.grd" else (text2, dtype2)
                kind = tape.pick(["handle", "path", "handle_again"], f"h{s}.kind")
                fault = None
                if tape.coin(0.5, f"h{s}.fault"):
                    fault = (tape.pick(["eio", "eof", "interrupt"], f"h{s}.fk"), tape.draw(n_reads + 1, f"h{s}.k"))
                trace["ops"].append(f"history {s}: {kind} {which} fault={fault}")
                if kind == "handle_again" and which in handles:
                    stats["probes"]["retry_on_consumed_handle"] = stats["probes"].get("retry_on_consumed_handle", 0) + 1
                    L.load(which, t, dt, "handle", fault=fault, handle=handles[which], where="history")
                elif kind == "path":
                    L.load(which, t, dt, "path", fault=fault, where="history")
                else:
                    _, _, hh, _ = L.load(which, t, dt, "handle", fault=fault, where="history")
                    handles[which] = hh
            if disk.opened_total != disk.closed_total:
                raise Violation("handle-leak", f"{disk.opened_total} opened through the seam, {disk.closed_total} closed")
            stats["extra"]["handles_opened_by_function"] = disk.opened_total
    except Violation as v:
        v.trace = trace
        raise
    finally:
        disk.destroy()
        if sys.gettrace() is not None:
            sys.settrace(None)
    return {
        "op": "file",
        "probes": stats["probes"],
        "fired": stats["fired"],
        "extra": stats["extra"],
        "sample": {"file": desc, "text": text, "corruptions": [n for n, _ in corruptions[:8]]},
        "steps": stats["extra"].get("loads", 0),
        "yields": 0,
        "states": set(),
        "interleaving": None,
        "log_digest": None,
        "obs_digest": str(sorted(stats["extra"].items())),
        "nontrivial": True,
        "case_sets": (stats["cases"], stats["nontrivial"]),
        "evaluations": stats["extra"].get("loads", 0),
    }
