"""
C12 - scores come from models fitted on training data only, with the stated
metric; serial == delayed under any task order.

One run = one workload (dataset, estimator, cross-validator, scorer) evaluated
(a) by the reference model, (b) serially by verde, (c) by verde through
dask.delayed / a client on the simulated executor with a tape-chosen schedule
and fault mix.  See DESIGN.md section 3 (C12).
"""
import warnings

import numpy as np

from ..sched import HarnessError, SchedConfig, Violation
from ..simdask import SimClient, SimExecutor, StubLimit, patched_dask_uuid, patched_distributed_api, through_distributed
from ..workload import (
    cv_is_stateful,
    build_cv,
    build_estimator,
    build_scoring,
    gen_cv_spec,
    gen_dataset,
    gen_scoring,
    gen_spec,
    metric,
    model_cv,
)

PROPERTY = "C12"
LEVEL = "exploration"
RTOL = 1e-9
TIERS = {"quick": {"runs": 4000, "wall": 300}, "thorough": {"runs": 120000, "wall": 1800, "chunk": 20}}
RULE = (
    "Each run draws one workload from the tape (dataset 12-60 points, 1-3 components, weights or not, 1-D/2-D arrays; "
    "estimator Trend/Spline/KNeighbors/Linear/Chain/Vector/VectorSpline2D; cross-validator default/KFold/ShuffleSplit/"
    "BlockKFold/BlockShuffleSplit; scorer None/r2/neg MSE/MAE/RMSE/custom make_scorer) and one operation "
    "(cross_val_score serial + delayed-all / delayed-each / client / concurrent callers; SplineCV.fit serial/delayed/client; "
    "score; train_test_split), then a schedule and fault mix (uniform or PCT strategy, 1-8 workers, switch probability, "
    "kills at labelled or arbitrary yield points, duplicate executions, pickling transport). A case is the full tape "
    "(workload + schedule + faults); it is non-trivial when at least two task attempts were interleaved by the simulated "
    "executor or a fault fired (score / train_test_split runs and single-task schedules are trivial); distinct = distinct tape digests."
)
ASSUMPTIONS = [
    "fit/predict of the individual estimators are trusted (subject of C01-C04): the reference model calls them on rows it selected itself",
    "dask graph construction and dask.compute front end are real; the executor and the distributed Client are stubs (SimExecutor, SimClient)",
    "pre-emption happens at entries of non-generator functions of the verde package only (numpy/BLAS/sklearn calls are atomic), BLAS pinned to one thread",
    "only integer random_state values are used (a shared RandomState instance is order dependent by definition)",
    "configurations with empty/constant test folds or failing cv.split are re-drawn (C11's subject)",
    "sampling, not enumeration: a clean batch is evidence, not proof",
]
COMPONENTS = {
    "real": ["verde (from the /repo working tree)", "numpy/scipy/sklearn/pandas/xarray", "dask.delayed graph construction and dask.compute front end", "cloudpickle at the serialisation boundary", "OS threads (parked/released one at a time)"],
    "stub": ["dask task executor -> SimExecutor.get", "distributed.Client/Future -> SimClient/SimFuture", "uuid4 in dask keys -> counter"],
}


# ------------------------------------------------------------------ helpers
def close(a, b):
    a = np.asarray(a, dtype=float)
    b = np.asarray(b, dtype=float)
    if a.shape != b.shape:
        return False
    return bool(np.all(np.abs(a - b) <= RTOL * np.maximum(1.0, np.abs(b))))


def same_scores(a, b):
    a = np.asarray(a, dtype=float)
    b = np.asarray(b, dtype=float)
    if a.shape != b.shape or not np.array_equal(np.isnan(a), np.isnan(b)):
        return False
    m = ~np.isnan(a)
    return bool(np.all(np.abs(a[m] - b[m]) <= RTOL * np.maximum(1.0, np.abs(b[m]))))


def snapshot_arrays(ds):
    arrs = list(ds.coordinates) + list(ds.data) + (list(ds.weights) if ds.weights is not None else [])
    return [(a, a.tobytes(), a.shape, a.dtype) for a in arrs]


def check_arrays(snap, where):
    """
    Purity of the argument arrays is C20's statement, not C12's: it is not judged here (C20's
    history machine calls cross_val_score / train_test_split / SplineCV on guarded arrays).  A
    modified array would make every later comparison of this run meaningless, so the run stops
    being evaluated - it is reported as a probe, never as a C12 violation.
    """
    for a, raw, shape, dtype in snap:
        if a.shape != shape or a.dtype != dtype or a.tobytes() != raw:
            raise ArgumentsChanged(where)


class ArgumentsChanged(Exception):
    pass


def estimator_state(est):
    """Deep, comparable picture of an estimator: params (recursively) and attribute names."""
    out = {"cls": type(est).__name__, "attrs": sorted(vars(est))}
    params = {}
    for k, v in sorted(vars(est).items()):
        params[k] = _freeze(v)
    out["vars"] = params
    return out


def _freeze(v):
    if isinstance(v, np.ndarray):
        return ("nd", v.shape, str(v.dtype), v.tobytes())
    if isinstance(v, (list, tuple)):
        return (type(v).__name__, tuple(_freeze(i) for i in v))
    if isinstance(v, dict):
        return ("dict", tuple((k, _freeze(x)) for k, x in sorted(v.items())))
    if hasattr(v, "get_params") and hasattr(v, "__dict__"):
        return ("est", type(v).__name__, tuple((k, _freeze(x)) for k, x in sorted(vars(v).items())))
    if callable(v):
        return ("fn", getattr(v, "__name__", repr(type(v))))
    return ("v", repr(v))


def check_estimator_untouched(before, est, where):
    after = estimator_state(est)
    if before != after:
        new = sorted(set(after["attrs"]) - set(before["attrs"]))
        raise Violation(
            "input-estimator-modified",
            f"{where}: the estimator passed in changed (new attributes: {new})",
        )


# ---------------------------------------------------------- reference model
def model_splits(ds, cvspec):
    X = np.column_stack([np.ravel(ds.coordinates[0]), np.ravel(ds.coordinates[1])])
    return [(np.array(tr), np.array(te)) for tr, te in model_cv(cvspec).split(X)]


def take(ds, idx):
    coords = tuple(np.ravel(c)[idx] for c in ds.coordinates)
    data = tuple(np.ravel(d)[idx] for d in ds.data)
    weights = None if ds.weights is None else tuple(np.ravel(w)[idx] for w in ds.weights)
    return coords, data, weights


def model_fit_predict(spec, train, test_coords):
    est = build_estimator(spec)
    coords, data, weights = train
    d = data[0] if len(data) == 1 else data
    w = None if weights is None else (weights[0] if len(weights) == 1 else weights)
    est.fit(coords, d, w)
    pred = est.predict(test_coords)
    return pred if isinstance(pred, tuple) else (pred,)


def model_score(scoring, data, pred, weights):
    vals = []
    for i, p in enumerate(pred):
        if not np.all(np.isfinite(p)):
            # e.g. Linear outside the convex hull of the training rows. What a scorer does
            # with NaN predictions (raise, or return NaN) is scikit-learn's choice and not
            # part of the property: the model makes no claim for this split.
            return float("nan")
        vals.append(metric(scoring, data[i], p, None if weights is None else weights[i]))
    return float(np.mean(vals))


def model_cross_val(ds, spec, cvspec, scoring):
    """List with one float per split, or an Exception instance where it must raise."""
    scores = []
    for tr, te in model_splits(ds, cvspec):
        train = take(ds, tr)
        tcoords, tdata, tweights = take(ds, te)
        try:
            pred = model_fit_predict(spec, train, tcoords)
            scores.append(model_score(scoring, tdata, pred, tweights))
        except Exception as e:  # noqa: B902
            return e
    return scores


def hygiene_ok(ds, cvspec, min_train=8):
    """Configurations outside the property's subject are re-drawn (DESIGN: workload hygiene)."""
    try:
        splits = model_splits(ds, cvspec)
    except Exception:  # noqa: B902 - e.g. more folds than blocks: C11's business
        return False
    if not splits:
        return False
    for tr, te in splits:
        if tr.size < min_train or te.size < 2:
            return False
        for d in ds.data:
            t = np.ravel(d)[te]
            if np.ptp(t) < 1e-6:
                return False
    return True


def draw_cv(tape, ds, allow_stateful=True):
    for i in range(8):
        cvspec = gen_cv_spec(tape, ds.n, f"cv{i}")
        if not allow_stateful and cv_is_stateful(cvspec):
            continue
        if hygiene_ok(ds, cvspec):
            return cvspec
    return ["default"] if hygiene_ok(ds, ["default"]) else ["kfold", 2, False, None]


def mutate_params(est):
    """The caller changes a parameter of ITS estimator object (after handing it to cross_val_score)."""
    import verde as vd

    if isinstance(est, vd.Chain):
        return mutate_params(est.steps[0][1])
    if isinstance(est, vd.Vector):
        return mutate_params(est.components[0])
    if isinstance(est, vd.Trend):
        est.set_params(degree=est.degree % 3 + 1)
    elif isinstance(est, (vd.Spline, vd.VectorSpline2D)):
        est.set_params(damping=(est.damping or 1e-3) * 7.0)
    elif isinstance(est, vd.KNeighbors):
        est.set_params(k=est.k % 4 + 1)
    elif isinstance(est, vd.BlockReduce):
        est.set_params(spacing=est.spacing * 1.6)
    elif hasattr(est, "rescale"):
        est.set_params(rescale=not est.rescale)
    else:
        return False
    return True


# --------------------------------------------------------------- operations
def compare_scores(got, want, where, key=None):
    if isinstance(want, Exception):
        raise HarnessError("compare_scores called with exception expectation")
    got = [float(g) for g in np.ravel(np.asarray(got, dtype=float))]
    if len(got) != len(want):
        raise Violation("score-count", f"{where}: {len(got)} scores for {len(want)} splits", key)
    for i, (g, w) in enumerate(zip(got, want)):
        if np.isnan(w):
            # non-finite predictions on this split: raising or a NaN score are both fine (scikit-learn's choice);
            # a FINITE score can only come from scoring a subset of the test rows
            if np.isfinite(g):
                raise Violation(
                    "score-on-subset-of-test-rows",
                    f"{where}: split {i}: the model's predictions for the test rows contain NaN, yet verde reports the finite score {g!r} (all: {got})",
                    key,
                )
            continue
        if not close(g, w):
            raise Violation(
                "score-differs-from-model",
                f"{where}: split {i}: verde {g!r} vs independently fitted/scored model {w!r} (all: {got} vs {want})",
                key,
            )


def call_verde(fn, must_succeed, where):
    """Run a verde call; classify exceptions (violation vs expected refusal)."""
    try:
        return True, fn()
    except (Violation, HarnessError):
        raise
    except Exception as e:  # noqa: B902
        if through_distributed(e):
            # the code under test reached into the real distributed package with our stub client/futures
            raise StubLimit(f"{where}: {type(e).__name__}: {str(e)[:200]}") from e
        if must_succeed:
            raise Violation(
                "unexpected-exception", f"{where}: raised {type(e).__name__}: {str(e)[:300]}"
            ) from e
        return False, e


def run_cross_val(tape, stats):
    import dask
    import verde as vd

    ds = gen_dataset(tape)
    spec = gen_spec(tape, ds.ncomp, allow_nan_models=True, has_w=ds.weights is not None)
    cvspec = draw_cv(tape, ds)
    scoring = gen_scoring(tape)
    mode = tape.weighted([("delayed_all", 4), ("client", 3), ("delayed_each", 2), ("callers", 2), ("merged", 2), ("shared_fitted", 1)], "mode")
    sample = {"op": "cross_val_score", "data": ds.desc, "estimator": spec, "cv": cvspec, "scoring": scoring, "mode": mode}
    stats["sample"] = sample
    want = model_cross_val(ds, spec, cvspec, scoring)
    raises = isinstance(want, Exception)
    no_claim = (not raises) and any(np.isnan(w) for w in want)
    must = not raises and not no_claim  # verde must return (no exception) exactly when the model is fully defined
    stats["probes"]["model_expects_exception"] = int(raises)
    stats["probes"]["model_no_claim_nan_prediction"] = int(no_claim)
    snap = snapshot_arrays(ds)
    args = (ds.coordinates, ds.data_arg(), ds.weights_arg())

    # the caller may hand the SAME cross-validator object to several calls (it must not be used up or altered)
    shared_cv = build_cv(cvspec) if tape.coin(0.5, "reuse_cv_object") and not cv_is_stateful(cvspec) else None
    if shared_cv is not None:
        stats["probes"]["cv_object_reused_across_calls"] = 1

    def the_cv():
        return shared_cv if shared_cv is not None else build_cv(cvspec)

    # (b) serial
    est = build_estimator(spec)
    before = estimator_state(est)
    ok, got = call_verde(
        lambda: vd.cross_val_score(est, *args, cv=the_cv(), scoring=build_scoring(scoring)),
        must,
        "serial cross_val_score",
    )
    if ok:
        if raises:
            raise Violation(
                "returned-where-model-raises",
                f"serial cross_val_score returned {got!r} but the model raised {type(want).__name__}: {want}",
            )
        compare_scores(got, want, "serial cross_val_score")
    check_estimator_untouched(before, est, "serial cross_val_score")
    check_arrays(snap, "serial cross_val_score")
    serial = got if ok else None

    # (c) simulated
    cfg = SchedConfig(tape, allow_faults=True)
    sample["sched"] = cfg.describe()
    ex = SimExecutor(tape, cfg)
    stats["ex"] = ex
    est2 = build_estimator(spec)
    before2 = estimator_state(est2)
    # the lazy scores / futures stand for the estimator AS PASSED: the caller may go on using (re-parameterising)
    # its own object afterwards, e.g. in a loop over candidate parameters that builds many lazy scores
    reuse = mode in ("delayed_all", "delayed_each", "client") and tape.coin(0.4, "caller_reuses_estimator")

    def caller_reuses():
        nonlocal before2
        if reuse:
            check_estimator_untouched(before2, est2, f"{mode} cross_val_score (graph construction)")
            if mutate_params(est2):
                stats["probes"]["caller_changed_estimator_after_call"] = 1
            before2 = estimator_state(est2)

    try:
        if mode in ("delayed_all", "delayed_each"):
            delayed = vd.cross_val_score(
                est2, *args, cv=the_cv(), scoring=build_scoring(scoring), delayed=True
            )
            caller_reuses()

            def compute():
                if mode == "delayed_all":
                    return list(dask.compute(*delayed, scheduler=ex.get))
                # the user computes the lazy scores one at a time, in any order, possibly twice
                order = list(range(len(delayed)))
                out = [None] * len(delayed)
                for _ in range(len(order)):
                    j = order.pop(tape.draw(len(order), "each.order"))
                    out[j] = delayed[j].compute(scheduler=ex.get)
                if tape.coin(0.3, "each.again"):
                    j = tape.draw(len(delayed), "each.which")
                    again = delayed[j].compute(scheduler=ex.get)
                    stats["probes"]["recompute_same_delayed"] = 1
                    if not same_scores(again, out[j]):
                        raise Violation(
                            "re-execution-differs",
                            f"computing the same delayed score twice gave {out[j]!r} then {again!r}",
                        )
                return out

            ok2, got2 = call_verde(compute, must, f"{mode} cross_val_score")
        elif mode == "client":
            client = SimClient(ex)

            def compute():
                futures = vd.cross_val_score(
                    est2, *args, cv=the_cv(), scoring=build_scoring(scoring), client=client
                )
                caller_reuses()
                # results are requested in a tape-chosen order (the caller may wait on any future first)
                order = list(range(len(futures)))
                out = [None] * len(futures)
                for _ in range(len(order)):
                    j = order.pop(tape.draw(len(order), "result.order"))
                    out[j] = futures[j].result()
                client.drain()
                return out

            ok2, got2 = call_verde(compute, must, "client cross_val_score")
        elif mode == "merged":
            ok2, got2 = run_merged(tape, stats, ex, ds, spec, cvspec, scoring, est2, args, must)
        elif mode == "shared_fitted":
            ok2, got2 = run_shared_fitted(tape, stats, ex, ds, spec)
        else:
            ok2, got2 = run_callers(tape, stats, ex, ds, spec, cvspec, scoring, est2, must)
    finally:
        ex.sched.shutdown()
    if mode not in ("callers", "shared_fitted") and ok2 is not None:
        if ok2:
            if raises:
                raise Violation(
                    "returned-where-model-raises",
                    f"{mode} returned {got2!r} but the model raised {type(want).__name__}: {want}",
                )
            compare_scores(got2, want, f"{mode} cross_val_score under schedule")
            if serial is None:
                raise Violation("serial-vs-delayed", f"{mode} returned {got2} but the serial evaluation raised {type(got).__name__}: {got}")
            if not same_scores(got2, serial):
                raise Violation("serial-vs-delayed", f"{mode}: {got2} vs serial {list(serial)}")
        elif ok:
            raise Violation("serial-vs-delayed", f"{mode} raised {type(got2).__name__}: {got2} but the serial evaluation returned {list(serial)}")
    check_estimator_untouched(before2, est2, f"{mode} cross_val_score")
    check_arrays(snap, f"{mode} cross_val_score")


def run_merged(tape, stats, ex, ds, spec, cvspec, scoring, est2, args, must):
    """
    Two lazy cross-validations (the same data, another estimator and scorer) are computed in ONE
    dask.compute call: their tasks share the argument arrays and interleave freely.
    """
    import dask
    import verde as vd

    # what differs in the second evaluation: the estimator and scorer, only the data, or only the splits
    # (the last two give two graphs whose tasks look alike except for their arguments)
    variant = tape.pick(["other_estimator", "other_data", "other_cv"], "merged.variant")
    spec_b, scoring_b, ds_b, cvspec_b = spec, scoring, ds, cvspec
    if variant == "other_estimator":
        spec_b = gen_spec(tape, ds.ncomp, tag="EB")
        scoring_b = gen_scoring(tape, "scoring_b")
    elif variant == "other_data":
        ds_b = gen_dataset(tape, ncomp=ds.ncomp, tag="DB")
        cvspec_b = cvspec if hygiene_ok(ds_b, cvspec) else draw_cv(tape, ds_b)
    else:
        cvspec_b = draw_cv(tape, ds)
    args_b = (ds_b.coordinates, ds_b.data_arg(), ds_b.weights_arg())
    want_b = model_cross_val(ds_b, spec_b, cvspec_b, scoring_b)
    stats["sample"]["second"] = {"variant": variant, "estimator": spec_b, "scoring": scoring_b, "data": ds_b.desc, "cv": cvspec_b}
    stats["probes"]["merged_graphs_" + variant] = 1
    est_b = build_estimator(spec_b)
    before_b = estimator_state(est_b)
    da = vd.cross_val_score(est2, *args, cv=build_cv(cvspec), scoring=build_scoring(scoring), delayed=True)
    db = vd.cross_val_score(est_b, *args_b, cv=build_cv(cvspec_b), scoring=build_scoring(scoring_b), delayed=True)
    must_b = not isinstance(want_b, Exception) and not any(np.isnan(w) for w in want_b)
    ok, got = call_verde(lambda: list(dask.compute(*da, *db, scheduler=ex.get)), must and must_b, "merged cross_val_score graphs")
    check_estimator_untouched(before_b, est_b, "merged cross_val_score graphs")
    if not ok:
        # allowed only because one of the two evaluations has no fully defined model; cannot be attributed
        return None, got
    ga, gb = got[: len(da)], got[len(da):]
    if isinstance(want_b, Exception):
        raise Violation("returned-where-model-raises", f"merged graphs returned {gb!r} but the model raised {type(want_b).__name__}")
    compare_scores(gb, want_b, "second cross_val_score of a merged graph under schedule")
    return True, ga


def run_shared_fitted(tape, stats, ex, ds, spec):
    """
    One FITTED estimator is scored / asked to predict by several caller threads at once:
    predict and score are read-only, so every caller must get the sequential answer.
    """
    est = build_estimator(spec)
    est.fit(ds.coordinates, ds.data_arg(), ds.weights_arg())
    ref = build_estimator(spec).fit(ds.coordinates, ds.data_arg(), ds.weights_arg())
    ncallers = tape.randint(2, 4, "shared.n")
    tests = [gen_dataset(tape, ncomp=ds.ncomp, tag=f"T{i}") for i in range(ncallers)]
    stats["probes"]["concurrent_score_on_fitted"] = 1
    actors = []
    for i, t in enumerate(tests):
        what = tape.pick(["score", "predict"], f"shared.{i}.what")
        if what == "score":
            body = lambda t=t: est.score(t.coordinates, t.data_arg(), t.weights_arg())  # noqa: E731
            pred = ref.predict(t.coordinates)
            pred = pred if isinstance(pred, tuple) else (pred,)
            want = model_score("r2", t.data, pred, t.weights)
        else:
            body = lambda t=t: est.predict(t.coordinates)  # noqa: E731
            want = ref.predict(t.coordinates)
        actors.append((ex.sched.spawn(f"caller{i}", body, killable=False), what, want, snapshot_arrays(t)))
    ex.sched.cfg.workers = max(ex.sched.cfg.workers, ncallers)
    ex.sched.drain()
    for i, (a, what, want, snap) in enumerate(actors):
        if a.state != "done":
            if isinstance(a.exc, (Violation, HarnessError)):
                raise a.exc
            if what == "score" and np.isnan(want):
                continue
            raise Violation("unexpected-exception", f"concurrent {what} on a fitted estimator: caller {i} raised {type(a.exc).__name__}: {str(a.exc)[:300]}")
        if what == "score":
            if not np.isnan(want) and not close(a.result, want):
                raise Violation("score-differs-from-model", f"concurrent score on one fitted estimator: caller {i} got {a.result!r}, sequential answer {want!r}")
        else:
            g = a.result if isinstance(a.result, tuple) else (a.result,)
            w = want if isinstance(want, tuple) else (want,)
            if len(g) != len(w) or not all(np.array_equal(x, y, equal_nan=True) for x, y in zip(g, w)):
                raise Violation("score-differs-from-model", f"concurrent predict on one fitted estimator: caller {i} differs from the sequential prediction")
        check_arrays(snap, f"concurrent {what} caller {i}")
    return True, None


def run_callers(tape, stats, ex, ds, spec, cvspec, scoring, shared_est, must):
    """
    Several caller threads use the *same* estimator object at once (each calls
    cross_val_score serially, or est.score after its own fit of a clone): legal
    because the estimator passed in is promised to be left untouched.
    """
    import verde as vd

    ncallers = tape.randint(2, 3, "callers.n")
    datasets = [ds] + [gen_dataset(tape, ncomp=ds.ncomp, tag=f"D{i}") for i in range(1, ncallers)]
    cvspecs = [cvspec] + [draw_cv(tape, d) for d in datasets[1:]]
    wants = [model_cross_val(d, spec, c, scoring) for d, c in zip(datasets, cvspecs)]
    snaps = [snapshot_arrays(d) for d in datasets]
    results = {}
    stats["probes"]["concurrent_callers"] = 1
    for i, (d, c) in enumerate(zip(datasets, cvspecs)):
        def body(d=d, c=c):
            return vd.cross_val_score(
                shared_est, d.coordinates, d.data_arg(), d.weights_arg(), cv=build_cv(c), scoring=build_scoring(scoring)
            )

        results[i] = ex.sched.spawn(f"caller{i}", body, killable=False)
    ex.sched.cfg.workers = max(ex.sched.cfg.workers, ncallers)
    ex.sched.drain()
    ok_all = True
    for i, a in results.items():
        want = wants[i]
        if a.state == "failed":
            if isinstance(a.exc, (Violation, HarnessError)):
                raise a.exc
            if not isinstance(want, Exception) and not any(np.isnan(w) for w in want):
                raise Violation(
                    "unexpected-exception",
                    f"concurrent caller {i}: raised {type(a.exc).__name__}: {str(a.exc)[:300]}",
                )
            ok_all = False
        elif a.state == "done":
            if isinstance(want, Exception):
                raise Violation("returned-where-model-raises", f"concurrent caller {i} returned {a.result!r}")
            compare_scores(a.result, want, f"concurrent caller {i} sharing one estimator object")
        else:
            raise HarnessError(f"caller {i} ended in state {a.state}")
        check_arrays(snaps[i], f"concurrent caller {i}")
    return ok_all and must, None


def run_splinecv(tape, stats):
    import dask
    import verde as vd

    ds = gen_dataset(tape, ncomp=1, nmax=45, allow_extra=False)
    # SplineCV hands ONE cv object to every candidate: a cv seeded with a RandomState instance then gives
    # each candidate other splits by design, so only cross-validators without such state are used here
    cvspec = draw_cv(tape, ds, allow_stateful=False)
    scoring = gen_scoring(tape)
    pool = [1e-4, 1e-2, 1.0, 30.0, 1e3, 1e-6]
    k = tape.randint(2, 4, "ndampings")
    dampings = []
    for i in range(k):
        cand = [d for d in pool if d not in dampings]
        dampings.append(tape.pick(cand, f"damping{i}"))
    mode = tape.weighted([("delayed", 4), ("client", 3), ("serial", 1)], "mode")
    # the (deprecated) second grid dimension: candidates are the product mindists x dampings, in that order
    mindists = None
    if tape.coin(0.3, "use_mindists"):
        mindists = [tape.pick([0.0, 5.0], "mindist0"), tape.pick([20.0, 60.0], "mindist1")]
        if tape.draw(2, "mindist.order"):
            mindists.reverse()
    grid = [(m, d) for m in (mindists or [None]) for d in dampings]
    # optional fixed force locations (a constructor parameter handed on to every candidate and to the refit)
    fc = None
    if tape.coin(0.25, "use_force_coords"):
        rs_fc = np.random.RandomState(tape.subseed("force_coords"))
        nf = tape.randint(6, 10, "nforces")
        fc = [list(np.round(rs_fc.uniform(0, 100, nf), 3)), list(np.round(rs_fc.uniform(-60, 40, nf), 3))]
    sample = {"op": "SplineCV.fit", "data": ds.desc, "mindists": mindists, "dampings": dampings, "force_coords": None if fc is None else len(fc[0]), "cv": cvspec, "scoring": scoring, "mode": mode}
    stats["sample"] = sample
    per = [model_cross_val(ds, ["spline", d, m, fc], cvspec, scoring) for m, d in grid]
    if any(isinstance(p, Exception) for p in per):
        raise HarnessError(f"model raised for a plain damped spline: {per}")
    want_means = [float(np.mean(p)) for p in per]
    snap = snapshot_arrays(ds)
    args = (ds.coordinates, ds.data_arg(), ds.weights_arg())
    cfg = SchedConfig(tape, allow_faults=True)
    sample["sched"] = cfg.describe()
    ex = SimExecutor(tape, cfg)
    stats["ex"] = ex
    key = None
    mkw = {"mindists": tuple(mindists)} if mindists else {}
    if fc is not None:
        mkw["force_coords"] = tuple(np.array(c, dtype=float) for c in fc)
    try:
        if mode == "serial":
            scv = vd.SplineCV(dampings=tuple(dampings), cv=build_cv(cvspec), scoring=build_scoring(scoring), **mkw)
            call_verde(lambda: scv.fit(*args), True, "serial SplineCV.fit")
            got_means = scv.scores_
        elif mode == "delayed":
            scv = vd.SplineCV(
                dampings=tuple(dampings), cv=build_cv(cvspec), scoring=build_scoring(scoring), delayed=True, **mkw
            )

            def go():
                with dask.config.set(scheduler=ex.get):
                    scv.fit(*args)
                # documented: scores_ are lazy; computing them runs the grid search again
                return list(dask.compute(*scv.scores_, scheduler=ex.get))

            _, got_means = call_verde(go, True, "delayed SplineCV.fit")
        else:
            client = SimClient(ex)
            scv = vd.SplineCV(
                dampings=tuple(dampings), cv=build_cv(cvspec), scoring=build_scoring(scoring), client=client, **mkw
            )

            def go():
                scv.fit(*args)
                client.drain()
                return scv.scores_

            _, got_means = call_verde(go, True, "client SplineCV.fit")
            if scoring not in ("none", "r2"):
                key = "SplineCV/client/scoring"
    finally:
        ex.sched.shutdown()
    got_means = [float(g) for g in np.ravel(np.asarray(got_means, dtype=float))]
    if len(got_means) != len(want_means):
        raise Violation("score-count", f"SplineCV({mode}).scores_ has {len(got_means)} entries for {len(grid)} candidates")
    for i, (g, w) in enumerate(zip(got_means, want_means)):
        if not close(g, w):
            raise Violation(
                "splinecv-mean-score",
                f"SplineCV({mode}, scoring={scoring}) candidate (mindist, damping)={grid[i]}: scores_ {g!r} vs model mean {w!r}",
                key,
            )
    order = sorted(want_means, reverse=True)
    tie = len(order) > 1 and abs(order[0] - order[1]) <= 1e-7 * max(1.0, abs(order[0]))
    best_m, best_d = grid[int(np.argmax(want_means))]
    if not tie:
        if scv.damping_ != best_d or (mindists and scv.mindist_ != best_m):
            raise Violation(
                "splinecv-selection",
                f"SplineCV({mode}) selected (mindist, damping)=({scv.mindist_}, {scv.damping_}) but the highest mean score {max(want_means)} belongs to {(best_m, best_d)} (grid {grid}, means {want_means})",
                key,
            )
        stats["probes"]["selection_checked"] = 1
    # predicts exactly like a Spline with the selected parameters fitted to ALL the data
    ref = build_estimator(["spline", scv.damping_, scv.mindist_ if mindists else None, fc]).fit(*args)
    rs = np.random.RandomState(tape.subseed("query"))
    q = (rs.uniform(0, 100, 15), rs.uniform(-60, 40, 15))
    got_p = scv.predict(q)
    want_p = ref.predict(q)
    scale = max(1.0, float(np.max(np.abs(want_p))))
    if got_p.shape != want_p.shape or not np.all(np.abs(got_p - want_p) <= 1e-9 * scale):
        raise Violation("splinecv-refit", f"SplineCV({mode}).predict differs from Spline(damping={scv.damping_}) fitted to all data", key)
    check_arrays(snap, f"SplineCV({mode})")


def run_kill_enumeration(tape, stats):
    """
    Thorough tier: crash-point enumeration.  One small lazy cross-validation is computed once
    without faults to count the yield points of all its tasks, then computed again once per
    yield point k with the worker killed exactly there (the task is retried).  The SAME delayed
    objects are re-used for every k in shared-memory mode - the user who interrupts a compute
    and runs it again - so every retry meets whatever the killed attempt left in the clone.
    """
    import dask
    import verde as vd

    ds = gen_dataset(tape, nmax=28)
    spec = gen_spec(tape, ds.ncomp, has_w=ds.weights is not None)
    cvspec = draw_cv(tape, ds)
    scoring = gen_scoring(tape)
    want = model_cross_val(ds, spec, cvspec, scoring)
    stats["sample"] = {"op": "kill_enumeration", "data": ds.desc, "estimator": spec, "cv": cvspec, "scoring": scoring}
    if isinstance(want, Exception) or any(np.isnan(w) for w in want):
        return
    snap = snapshot_arrays(ds)
    args = (ds.coordinates, ds.data_arg(), ds.weights_arg())
    est = build_estimator(spec)
    before = estimator_state(est)
    delayed = vd.cross_val_score(est, *args, cv=build_cv(cvspec), scoring=build_scoring(scoring), delayed=True)
    ex = SimExecutor(tape, SchedConfig.fixed())
    stats["ex"] = ex
    try:
        got = list(dask.compute(*delayed, scheduler=ex.get))
    finally:
        ex.sched.shutdown()
    compare_scores(got, want, "kill enumeration: fault-free execution")
    total = ex.sched.yields
    workers = tape.randint(1, 3, "enum.workers")
    kills = 0
    stride = max(1, -(-total // 250))  # every position up to 250 per workload, else an even stride
    for k in range(1, total + 1, stride):
        serialize = bool(k % 2) and tape.draw(2, "enum.serialize") == 1
        cfg = SchedConfig.fixed(workers=workers, p_switch=0.3 if workers > 1 else 0.0, serialize=serialize, kills=[{"mode": "step", "at": k}])
        exk = SimExecutor(tape, cfg)
        try:
            ok, gotk = call_verde(lambda: list(dask.compute(*delayed, scheduler=exk.get)), True, f"kill enumeration: worker killed at yield {k}/{total}")
        finally:
            exk.sched.shutdown()
        kills += exk.sched.fired["kill"]
        compare_scores(gotk, want, f"kill enumeration: worker killed at yield {k}/{total} (retry on {'fresh copies' if serialize else 'the same objects'})")
    check_estimator_untouched(before, est, "kill enumeration")
    check_arrays(snap, "kill enumeration")
    stats["probes"]["kill_positions_enumerated"] = 1
    stats["probes"]["kill_positions_total"] = len(range(1, total + 1, stride))
    stats["probes"]["kill_positions_exhaustive_workloads"] = int(stride == 1)
    ex.sched.fired["kill"] += kills
    ex.sched.fired["kill_step"] += kills
    ex.fired["retry"] += kills


def run_score(tape, stats):
    import verde as vd  # noqa: F401

    ds = gen_dataset(tape)
    spec = gen_spec(tape, ds.ncomp)
    test = gen_dataset(tape, ncomp=ds.ncomp, tag="T")
    stats["sample"] = {"op": "score", "data": ds.desc, "estimator": spec, "test": test.desc}
    est = build_estimator(spec)
    snap = snapshot_arrays(test)
    call_verde(lambda: est.fit(ds.coordinates, ds.data_arg(), ds.weights_arg()), True, "fit")
    _, got = call_verde(lambda: est.score(test.coordinates, test.data_arg(), test.weights_arg()), True, "score")
    ref = build_estimator(spec).fit(ds.coordinates, ds.data_arg(), ds.weights_arg())
    pred = ref.predict(test.coordinates)
    pred = pred if isinstance(pred, tuple) else (pred,)
    want = model_score("r2", test.data, pred, test.weights)
    if not close(got, want):
        raise Violation("score-differs-from-model", f"estimator.score: verde {got!r} vs weighted mean-of-components R2 {want!r}")
    check_arrays(snap, "score")


def run_tts(tape, stats):
    import verde as vd

    ds = gen_dataset(tape)
    blocked = tape.weighted([("none", 2), ("spacing", 2), ("shape", 1)], "tts.block")
    seed = tape.draw(1000, "tts.seed")
    test_size = tape.pick([0.25, 0.4, 0.5], "tts.test")
    kwargs = {"random_state": seed, "test_size": test_size}
    if blocked == "spacing":
        kwargs["spacing"] = tape.pick([25.0, 20.0, 34.0], "tts.spacing")
    elif blocked == "shape":
        kwargs["shape"] = (tape.randint(2, 4, "tts.sn"), tape.randint(2, 4, "tts.se"))
    stats["sample"] = {"op": "train_test_split", "data": ds.desc, "kwargs": {k: v for k, v in kwargs.items()}}
    snap = snapshot_arrays(ds)
    try:
        train, test = vd.train_test_split(ds.coordinates, ds.data_arg(), ds.weights_arg(), **kwargs)
    except ValueError as e:
        # e.g. too few blocks for the requested test size: refusing is C11's business
        stats["probes"]["tts_refused"] = 1
        stats["sample"]["refused"] = str(e)[:100]
        return
    except Exception as e:  # noqa: B902
        raise Violation("unexpected-exception", f"train_test_split raised {type(e).__name__}: {e}") from e
    check_arrays(snap, "train_test_split")
    n = ds.n
    # identify rows through the coordinate pair + first component (unique with probability 1)
    flat = lambda arrs: [np.ravel(a) for a in arrs]  # noqa: E731
    allrows = np.column_stack(flat(ds.coordinates) + flat(ds.data) + (flat(ds.weights) if ds.weights is not None else []))

    def rows(part):
        c, d, w = part
        if len(c) != len(ds.coordinates) or len(d) != ds.ncomp:
            raise Violation("tts-structure", "train_test_split changed the number of coordinates/components")
        cols = list(c) + list(d)
        if ds.weights is not None:
            if w is None or any(i is None for i in w) or len(w) != ds.ncomp:
                raise Violation("tts-structure", "train_test_split lost the weights")
            cols += list(w)
        elif not (w is None or all(i is None for i in w)):
            raise Violation("tts-structure", "train_test_split invented weights")
        if len({np.asarray(i).shape for i in cols}) != 1:
            raise Violation("tts-alignment", "split arrays have different shapes")
        return np.column_stack([np.ravel(i) for i in cols])

    rtrain, rtest = rows(train), rows(test)
    if rtrain.shape[0] + rtest.shape[0] != n:
        raise Violation("tts-partition", f"train {rtrain.shape[0]} + test {rtest.shape[0]} != {n} rows")
    index = {tuple(r): i for i, r in enumerate(allrows)}
    if len(index) != n:
        return  # duplicate rows (probability ~0): cannot attribute rows
    ids = []
    for r in np.vstack([rtrain, rtest]):
        i = index.get(tuple(r))
        if i is None:
            raise Violation("tts-alignment", "a returned row (coordinates, data, weights) is not a row of the input: arrays were indexed differently")
        ids.append(i)
    if sorted(ids) != list(range(n)):
        raise Violation("tts-partition", "train and test are not complementary")
    if rtrain.shape[0] == 0 or rtest.shape[0] == 0:
        raise Violation("tts-partition", "empty side")
    if blocked != "none":
        labels = model_block_labels(ds, kwargs)
        tr_lab = {labels[i] for i in ids[: rtrain.shape[0]]}
        te_lab = {labels[i] for i in ids[rtrain.shape[0]:]}
        if tr_lab & te_lab:
            raise Violation("tts-blocks", f"blocks {sorted(tr_lab & te_lab)} occur in both train and test")
        stats["probes"]["tts_blocked_checked"] = 1


def model_block_labels(ds, kwargs):
    """Own block assignment: regular blocks over the data's bounding box, pixel registered."""
    e = np.ravel(ds.coordinates[0])
    n = np.ravel(ds.coordinates[1])
    w, ea, s, no = e.min(), e.max(), n.min(), n.max()
    if "shape" in kwargs:
        ny, nx = kwargs["shape"]
    else:
        sp = kwargs["spacing"]
        # verde adjusts the spacing to fit the region: number of blocks = round(extent / spacing), at least 1
        ny = max(int(round((no - s) / sp)), 1)
        nx = max(int(round((ea - w) / sp)), 1)
    ix = np.minimum(((e - w) / ((ea - w) / nx)).astype(int), nx - 1)
    iy = np.minimum(((n - s) / ((no - s) / ny)).astype(int), ny - 1)
    return list(iy * nx + ix)


# ---------------------------------------------------------------------- run
def run(tape, opts=None):
    warnings.resetwarnings()
    warnings.simplefilter("ignore")
    np.random.seed(tape.draw(1 << 31, "global_rng"))
    stats = {"probes": {}, "sample": None, "ex": None}
    op = tape.weighted([("cvs", 6), ("splinecv", 3), ("score", 1), ("tts", 1)], "op")
    if (opts or {}).get("tier") == "thorough" and tape.coin(0.04, "kill_enum"):
        op = "kill_enum"
    try:
        with patched_dask_uuid(), patched_distributed_api():
            if op == "kill_enum":
                run_kill_enumeration(tape, stats)
            elif op == "cvs":
                run_cross_val(tape, stats)
            elif op == "splinecv":
                run_splinecv(tape, stats)
            elif op == "score":
                run_score(tape, stats)
            else:
                run_tts(tape, stats)
    except Violation as v:
        v.trace = violation_trace(stats)
        raise
    except ArgumentsChanged:
        stats["probes"]["argument_arrays_changed_not_judged_here"] = 1
    except StubLimit:
        stats["probes"]["client_stub_api_limit_no_claim"] = 1
        if stats.get("ex") is not None:
            stats["ex"].sched.shutdown()
    return finish(stats, op)


def violation_trace(stats):
    ex = stats.get("ex")
    out = {"workload": stats.get("sample")}
    if ex is not None:
        out["schedule"] = [f"{n} -> {where}" for n, where in ex.sched.picks][:400]
        out["events"] = [list(map(str, e)) for e in ex.sched.log][:400]
        out["faults_fired"] = {**ex.sched.fired, **ex.fired}
    return out


def finish(stats, op):
    ex = stats.pop("ex")
    out = {"op": op, "probes": stats["probes"], "sample": stats["sample"], "steps": 0, "yields": 0, "fired": {}, "states": set(), "interleaving": None, "log_digest": None}
    if ex is not None:
        s = ex.sched
        out["steps"] = s.steps
        out["yields"] = s.yields
        fired = dict(s.fired)
        fired.update(ex.fired)
        out["fired"] = fired
        out["states"] = s.states
        out["interleaving"] = s.interleaving_digest()
        out["log_digest"] = s.log_digest()
        out["probes"].update(s.probes)
        out["tasks"] = len(ex.jobs)
        attempts = sum(j["attempts"] for j in ex.jobs.values()) + sum(1 for n in s.actors if n.startswith("caller"))
        out["nontrivial"] = attempts >= 2 and (s.fired["park"] > 0 or fired.get("retry", 0) + fired.get("dup", 0) > 0 or s.cfg.workers > 1)
        if fired.get("dup_concurrent"):
            out["probes"]["duplicate_while_others_running"] = 1
        if s.fired["kill"]:
            out["probes"]["task_killed_and_retried"] = 1
    else:
        out["nontrivial"] = False
    return out
