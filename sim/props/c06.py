"""
C06 (history dimension) - Chain, Vector and filter compose estimators without
leaking or losing data, across repeated / rejected / interrupted fits of the
same composite object.

One run = one composite (Chain / Vector / nested, 1-4 steps) and a history of
6-14 operations on it.  After every completed operation the composite is
compared, step by step, with a reference model that threads
(coordinates, data, weights) through FRESH clones of the steps without using
any Chain/Vector code.  See DESIGN.md section 3 (C06).
"""
import sys
import warnings

import numpy as np

from ..inject import CallPoints, SimInterrupt
from ..sched import HarnessError, Violation, hash64
from ..util import ArgGuard, arrays_of, freeze_params, same_result
from ..workload import build_estimator, gen_dataset

PROPERTY = "C06"
LEVEL = "exploration"
TIERS = {"quick": {"runs": 4000, "wall": 300}, "thorough": {"runs": 1500, "wall": 1800, "chunk": 4}}
RTOL = 1e-9

RULE = (
    "Each run draws one composite (Chain of 1-4 steps over Trend / Spline / KNeighbors / BlockReduce(mean|median|average) / BlockMean / nested Chain, "
    "or Vector / VectorSpline2D / Chain of Vectors for 2-component data) and a pool of 3 datasets plus one NaN-poisoned dataset (rejected by whichever "
    "step first cannot digest it, possibly a later one), then a history of 6-14 operations on that ONE object: fit, filter, fit interrupted at a "
    "tape-chosen verde call (may land between two steps; thorough tier enumerates every call point), fit on the poisoned data, predict, clone, repeat. "
    "A case is one history (tape); non-trivial = at least one refit on different data or an injected fault; distinct = distinct tape digests. "
    "Only the history dimension is explored deliberately; compositions and data are a by-product of the generator."
)
ASSUMPTIONS = [
    "fit/predict of gridder steps and filter of block reductions are trusted (their own properties); the model calls them on fresh clones with explicitly threaded arguments",
    "a nested Chain used as a step passes on (coordinates, data - its prediction at those coordinates, weights), the documented BaseGridder.filter contract",
    "VectorSpline2D's documented memory (force_coords written by its first fit) is read back from the live step into the model",
    "between a failed/interrupted fit and the next completed fit nothing is asserted about the composite; argument purity is asserted always",
    "tolerance 1e-9 of the data scale (calibrated: bit-identical on the pinned tree)",
]
COMPONENTS = {
    "real": ["verde Chain / Vector / BaseGridder.filter / steps (from the /repo working tree)", "numpy/scipy/sklearn/pandas"],
    "stub": ["KeyboardInterrupt/MemoryError -> SimInterrupt raised by a settrace hook at verde call points"],
}


class ArgumentsChanged(Exception):
    pass


# --------------------------------------------------------------------- specs
def gen_scalar_step(tape, has_w, depth, tag, allow_reduce=True):
    kinds = [("trend", 4), ("spline", 4), ("knn", 2)]
    if allow_reduce:
        kinds += [("blockreduce", 3), ("blockmean", 2)]
    if depth == 0:
        kinds.append(("chain", 2))
    kind = tape.weighted(kinds, f"{tag}.kind")
    if kind == "trend":
        return ["trend", tape.randint(1, 3, f"{tag}.degree")], has_w
    if kind == "spline":
        return ["spline", tape.pick([1e-2, 1.0, 1e-4, 30.0], f"{tag}.damping")], has_w
    if kind == "knn":
        return ["knn", tape.randint(1, 3, f"{tag}.k"), tape.pick(["mean", "median"], f"{tag}.red")], has_w
    if kind == "blockreduce":
        red = "average" if has_w else tape.pick(["mean", "median"], f"{tag}.red")
        return ["blockreduce", red, tape.pick([25.0, 20.0], f"{tag}.spacing")], False
    if kind == "blockmean":
        unc = bool(has_w and tape.draw(2, f"{tag}.unc"))
        return ["blockmean", tape.pick([25.0, 20.0], f"{tag}.spacing"), unc], True
    steps = []
    w = has_w
    for i in range(tape.randint(1, 3, f"{tag}.n")):
        s, w = gen_scalar_step(tape, w, depth + 1, f"{tag}.{i}", allow_reduce=allow_reduce)
        steps.append(s)
    if not any(can_predict(s) for s in steps):
        # hygiene: a nested chain of block reductions only has no prediction to subtract, so its
        # (inherited) filter is undefined - verde raises TypeError for it; outside the statement
        steps.append(["trend", 1])
    # a nested chain hands on the weights it was given
    return ["chain", steps], has_w


def gen_vector_step(tape, has_w, depth, tag):
    kinds = [("vector", 5), ("vspline", 2), ("blockreduce", 2), ("blockmean", 2)]
    if depth == 0:
        kinds.append(("chain", 1))
    kind = tape.weighted(kinds, f"{tag}.kind")
    if kind == "vector":
        comps = [gen_scalar_step(tape, has_w, 1, f"{tag}.c{i}", allow_reduce=False)[0] for i in range(2)]
        return ["vector", comps], has_w
    if kind == "vspline":
        return ["vspline", tape.pick([1e-2, 1.0], f"{tag}.damping"), tape.pick([0.5, 0.3], f"{tag}.poisson")], has_w
    if kind == "blockreduce":
        red = "average" if has_w else tape.pick(["mean", "median"], f"{tag}.red")
        return ["blockreduce", red, tape.pick([25.0, 20.0], f"{tag}.spacing")], False
    if kind == "blockmean":
        unc = bool(has_w and tape.draw(2, f"{tag}.unc"))
        return ["blockmean", tape.pick([25.0, 20.0], f"{tag}.spacing"), unc], True
    steps = []
    w = has_w
    for i in range(tape.randint(1, 2, f"{tag}.n")):
        s, w = gen_vector_step(tape, w, depth + 1, f"{tag}.{i}")
        steps.append(s)
    if not any(can_predict(s) for s in steps):
        steps.append(["vector", [["trend", 1], ["trend", 1]]])
    return ["chain", steps], has_w


def gen_composite(tape, ncomp, has_w):
    top = tape.weighted([("chain", 5), ("vector" if ncomp == 2 else "chain", 1)], "top")
    if top == "vector":
        return gen_vector_step(tape, has_w, 1, "V")[0] if False else ["vector", [gen_scalar_step(tape, has_w, 1, f"V.c{i}", allow_reduce=False)[0] for i in range(2)]]
    steps = []
    w = has_w
    n = tape.randint(1, 4, "nsteps")
    for i in range(n):
        if ncomp == 1:
            s, w = gen_scalar_step(tape, w, 0, f"S{i}")
        else:
            s, w = gen_vector_step(tape, w, 0, f"S{i}")
        steps.append(s)
    return ["chain", steps]


REDUCERS = ("blockreduce", "blockmean")


def can_predict(spec):
    if spec[0] in REDUCERS:
        return False
    if spec[0] == "chain":
        return any(can_predict(s) for s in spec[1])
    return True


# ---------------------------------------------------------- reference model
class Node:
    def __init__(self, spec):
        self.spec = spec
        self.est = None  # fitted fresh estimator (leaves)
        self.children = []
        self.fitted_on = None  # (coordinates, data, weights) this node was fitted on
        self.out = None  # reducers: what filter returned


def _tup(x):
    return x if isinstance(x, tuple) else (x,)


def _untup(x):
    return x[0] if isinstance(x, tuple) and len(x) == 1 else x


def model_fit(spec, live, coords, data, weights):
    """
    Fit a fresh copy of *spec* to (coords, data, weights) and return its Node.
    *live* is the corresponding live step (only read for VectorSpline2D's
    documented force_coords memory).  What the step hands to the next one is
    computed by ``model_out``.
    """
    node = Node(spec)
    node.fitted_on = (coords, data, weights)
    kind = spec[0]
    if kind in REDUCERS:
        red = build_estimator(spec)
        node.est = red
        node.out = tuple(red.filter(coords, data, weights) if weights is not None else red.filter(coords, data))
        return node
    if kind == "chain":
        args = (coords, data, weights)
        for i, s in enumerate(spec[1]):
            child = model_fit(s, live.steps[i][1], *((tuple(args) + (None,))[:3]))
            node.children.append(child)
            if i + 1 < len(spec[1]):
                args = model_out(child)
        return node
    if kind == "vector":
        d, w = _tup(data), (_tup(weights) if weights is not None else (None,) * len(_tup(data)))
        if not isinstance(data, tuple) or len(d) != len(spec[1]):
            raise ValueError("Vector needs a tuple with one data array per component")
        for i, s in enumerate(spec[1]):
            node.children.append(model_fit(s, live.components[i], coords, d[i], w[i]))
        return node
    est = build_estimator(spec)
    if kind == "vspline":
        est.force_coords = live.force_coords  # documented memory, read back
    est.fit(coords, data, weights)
    node.est = est
    return node


def model_out(node):
    """What a step hands to the next one: reducers their reduced triple, everything else the residuals."""
    if node.spec[0] in REDUCERS:
        return node.out
    coords, data, weights = node.fitted_on
    pred = model_predict(node, coords)
    resid = tuple(d - p.reshape(d.shape) for d, p in zip(_tup(data), _tup(pred)))
    return (coords, resid if isinstance(data, tuple) else resid[0], weights)


def model_predict(node, q):
    kind = node.spec[0]
    if kind == "chain":
        total = None
        for child in node.children:
            if not can_predict(child.spec):
                continue
            p = _tup(model_predict(child, q))
            total = list(p) if total is None else [a + b for a, b in zip(total, p)]
        if total is None:
            raise ValueError("nothing in the chain can predict")
        return total[0] if len(total) == 1 else tuple(total)
    if kind == "vector":
        return tuple(model_predict(c, q) for c in node.children)
    return node.est.predict(q)


def separable(spec):
    """True if no step couples the components (VectorSpline2D does, by design)."""
    if spec[0] == "vspline":
        return False
    if spec[0] in ("chain", "vector"):
        return all(separable(s) for s in spec[1])
    return True


def component_spec(spec, i):
    """The scalar composite that handles component i of a separable multi-component composite."""
    if spec[0] == "vector":
        return spec[1][i]
    if spec[0] == "chain":
        return ["chain", [component_spec(s, i) for s in spec[1]]]
    return spec


NAME_BY_KIND = [False]  # set per run: step names are the step kinds (so two trends share the name "trend")


def build_composite(spec):
    import verde as vd

    if spec[0] == "chain":
        if NAME_BY_KIND[0]:
            return vd.Chain([(s[0], build_composite(s)) for s in spec[1]])
        return vd.Chain([(f"s{i}", build_composite(s)) for i, s in enumerate(spec[1])])
    if spec[0] == "vector":
        return vd.Vector([build_composite(s) for s in spec[1]])
    return build_estimator(spec)


# ------------------------------------------------------------------- history
class History:
    def __init__(self, tape, opts):
        self.tape = tape
        self.thorough = opts.get("tier") == "thorough"
        self.ncomp = tape.weighted([(1, 3), (2, 2)], "ncomp")
        self.has_w = bool(tape.draw(2, "weights"))
        self.spec = gen_composite(tape, self.ncomp, self.has_w)
        # Chain does not ask for unique step names: a third of the composites name their steps by kind
        NAME_BY_KIND[0] = bool(tape.coin(0.33, "names_by_kind"))
        # data stay float64: with float32 data the promotion order inside the steps makes composite and
        # model differ by legitimate 1e-8 rounding (tried), and dtype behaviour is C04's subject
        self.f32 = False
        self.guard = ArgGuard()
        self.pool = []
        same_size = tape.coin(0.35, "pool.same_size")
        n_fixed = None
        for i in range(3):
            ds = gen_dataset(tape, ncomp=self.ncomp, nmin=30, nmax=60, allow_extra=True, weights=self.has_w, tag=f"D{i}", n=n_fixed)
            if same_size:
                n_fixed = ds.n
            self._protect(ds)
            self.pool.append(ds)
        # the planted inconsistency: one NaN in component 0 (a later step may be the one that rejects it)
        bad = gen_dataset(tape, ncomp=self.ncomp, nmin=30, nmax=60, allow_extra=False, allow_2d=False, weights=self.has_w, tag="Dbad")
        d0 = bad.data[0].copy()
        d0[tape.draw(d0.size, "nan.at")] = np.nan
        bad.data = (d0,) + tuple(bad.data[1:])
        self._protect(bad)
        self.bad = bad
        rs = np.random.RandomState(tape.subseed("queries"))
        self.q = self.guard.add_all((rs.uniform(5, 95, 9), rs.uniform(-55, 35, 9)))
        self.obj = build_composite(self.spec)
        self.model = None  # Node tree of the last completed fit
        self.last = None
        self.last_ds = None
        self.unknown = False
        self.touched = False
        self.trace = []
        self.probes = {}
        self.fired = {}
        self.maxdiff = {}
        self.flags = {"refit_other_data": False, "fault": False}
        self.ops = 0
        self.last_predict = None

    def _protect(self, ds):
        if self.f32:
            ds.data = tuple(np.asarray(d, dtype="float32") for d in ds.data)
            ds.desc["dtype"] = "float32"
        ro = not self.tape.coin(0.35, "writable")
        ds.desc["readonly"] = ro
        ds.coordinates = self.guard.add_all(ds.coordinates, ro)
        ds.data = self.guard.add_all(ds.data, ro)
        if ds.weights is not None:
            ds.weights = self.guard.add_all(ds.weights, ro)

    def probe(self, n):
        self.probes[n] = self.probes.get(n, 0) + 1

    def fire(self, n):
        self.fired[n] = self.fired.get(n, 0) + 1
        self.flags["fault"] = True

    def purity(self, where):
        """Argument purity is C20's statement: here a modified argument only ends the evaluation of the run."""
        if self.guard.changed():
            raise ArgumentsChanged(where)

    # --------------------------------------------------------- comparisons
    def scale(self, ds):
        return max(float(np.nanmax(np.abs(np.concatenate([np.ravel(d) for d in ds.data])))), 1.0)

    def close(self, got, want, ds, what, where):
        ok, d = same_result(got, want, rtol=RTOL, scale=self.scale(ds))
        if np.isfinite(d):
            self.maxdiff[what] = max(self.maxdiff.get(what, 0.0), d)
        if not ok:
            raise Violation(what, f"{where} (rel. diff {d:.3g}); composite {self.spec}; history {self.trace[-8:]}")

    def compare(self, ds, where):
        """Everything the statement relates, after a completed fit on *ds*."""
        obj, model = self.obj, self.model
        # 1. composite prediction == sum over the model's steps that can predict
        if can_predict(self.spec):
            got = self.must(where + ": predict", lambda: obj.predict(self.q))
            want = model_predict(model, self.q)
            self.close(_tup(got), _tup(want), ds, "composite-prediction", f"{where}: composite prediction differs from the sum of the separately fitted steps")
            if isinstance(got, tuple) != isinstance(want, tuple):
                raise Violation("composite-prediction", f"{where}: prediction is {'a tuple' if isinstance(got, tuple) else 'an array'} but should be {'a tuple' if isinstance(want, tuple) else 'an array'}")
        # 4'. no leak between components: with steps that treat the components separately (Vector, block
        # reductions), component i of the composite is the scalar composite of the i-th parts fitted to
        # data[i] with weights[i] only
        if self.ncomp == 2 and separable(self.spec) and can_predict(self.spec) and all(np.all(np.isfinite(d)) for d in ds.data):
            for i in range(2):
                sspec = component_spec(self.spec, i)
                sobj = build_composite(sspec)  # only walked for its structure (no VectorSpline2D inside)
                try:
                    node = model_fit(sspec, sobj, ds.coordinates, ds.data[i], None if ds.weights is None else ds.weights[i])
                    want_i = model_predict(node, self.q)
                except Exception:  # noqa: B902 - e.g. too few blocks for this component alone: no claim
                    continue
                got_i = _tup(obj.predict(self.q))[i]
                self.close((got_i,), (want_i,), ds, "component-cross-talk", f"{where}: component {i} of the composite differs from the same steps applied to data[{i}], weights[{i}] alone (another component's data or weights leaked in)")
            self.probe("component_independence_checked")
        # 3. each step, taken out of the composite, equals the model's clone fitted on what the previous step returned
        self.compare_steps(obj, model, ds, where, "step")
        # (the composite's own region_ is not part of C06's statement; a stale region_ after a refit is a
        #  history dependence and is judged by C20, whose universe contains chains and vectors)

    def compare_steps(self, live, node, ds, where, path):
        kind = node.spec[0]
        if kind == "chain":
            if len(live.steps) != len(node.children):
                raise Violation("step-mismatch", f"{where}: chain lost or gained steps")
            for i, child in enumerate(node.children):
                self.compare_steps(live.steps[i][1], child, ds, where, f"{path}[{i}]")
            return
        if kind == "vector":
            for i, child in enumerate(node.children):
                self.compare_steps(live.components[i], child, ds, where, f"{path}.component[{i}]")
            if hasattr(live, "predict"):
                got = self.must(where, lambda: live.predict(self.q))
                want = tuple(model_predict(c, self.q) for c in node.children)
                self.close(got, want, ds, "vector-cross-talk", f"{where}: {path}: Vector prediction differs from the components fitted separately to their own data/weights")
            return
        if kind in REDUCERS:
            return
        got = self.must(where, lambda: live.predict(self.q))
        want = node.est.predict(self.q)
        self.close(_tup(got), _tup(want), ds, "step-fitted-on-wrong-input", f"{where}: {path} ({node.spec}) does not predict like a clone fitted on exactly what the previous step returned")
        if tuple(float(x) for x in live.region_) != tuple(float(x) for x in node.est.region_):
            raise Violation("step-fitted-on-wrong-input", f"{where}: {path} region_ {tuple(live.region_)} != {tuple(node.est.region_)} (fitted on other coordinates than the previous step returned)")

    def must(self, where, thunk):
        try:
            return thunk()
        except (Violation, HarnessError):
            raise
        except Exception as e:  # noqa: B902
            raise Violation("unexpected-exception", f"{where}: raised {type(e).__name__}: {str(e)[:300]}; composite {self.spec}") from e

    # ------------------------------------------------------------ operations
    def args(self, ds):
        return (ds.coordinates, ds.data_arg(), ds.weights_arg())

    def op_fit(self, poisoned=False):
        self.last_predict = None
        if poisoned:
            ds, j = self.bad, "bad"
        else:
            j = self.tape.draw(len(self.pool), "fit.ds")
            ds = self.pool[j]
        via_filter = self.tape.coin(0.3, "fit.via_filter")
        name = "filter" if via_filter else "fit"
        mode = "complete" if poisoned else self.tape.weighted([("complete", 5), ("interrupt", 2)], "fit.mode")
        obj = self.obj
        call = (lambda: obj.filter(*self.args(ds))) if via_filter else (lambda: obj.fit(*self.args(ds)))
        desc = f"{name}(D{j})"
        if self.last is not None and self.last != j:
            self.flags["refit_other_data"] = True
            self.probe("refit_on_different_data")
        # the model first: it decides whether this fit must succeed
        try:
            model = model_fit(self.spec, obj, *self.args(ds))
            out = model_out(model) if via_filter else None
            model_err = None
        except Exception as e:  # noqa: B902
            model, out, model_err = None, None, e
        if mode == "interrupt" and model_err is None:
            k = self.tape.draw(self.tape.pick([12, 40, 120, 400], "fit.krange"), "fit.k")
            self.trace.append(f"{desc} interrupted@{k}")
            if not self.interrupted(call, k, desc):
                return
            self.trace[-1] += " (completed)"
            res = None
            if via_filter:
                res = obj.filter(*self.args(ds))
        else:
            self.trace.append(desc + (" [poisoned]" if poisoned else ""))
            if poisoned:
                self.fire("poisoned_fit")
            try:
                res = call()
                err = None
            except (Violation, HarnessError):
                raise
            except Exception as e:  # noqa: B902
                res, err = None, e
            self.touched = True
            if (err is None) != (model_err is None):
                self.unknown = True
                if err is not None:
                    raise Violation("unexpected-exception", f"{desc}: composite raised {type(err).__name__}: {str(err)[:300]} but the separately fitted steps accept this input; composite {self.spec}")
                raise Violation("composite-accepts-what-steps-reject", f"{desc}: composite returned although fitting the steps one by one raises {type(model_err).__name__}: {str(model_err)[:200]}; composite {self.spec}")
            if err is not None:
                self.probe("fit_rejected_by_step")
                self.unknown = True
                self.purity(desc)
                return
        self.model, self.last, self.last_ds, self.unknown, self.touched = model, j, ds, False, True
        self.purity(desc)
        if via_filter and res is not None:
            self.check_filter(ds, res, model, out, desc)
        self.compare(ds, desc)
        if self.thorough and not poisoned and self.tape.coin(0.35, "fit.enumerate"):
            self.enumerate_interrupts(ds, j)

    def interrupted(self, call, k, desc):
        try:
            with CallPoints(interrupt_at=k) as cp:
                call()
        except SimInterrupt:
            self.fire("interrupt")
            lab = cp.fired
            self.probe("interrupt@" + lab.split(":")[-1])
            if "filter" in lab or "Chain.fit" in lab:
                self.probe("interrupt_between_steps")
            self.unknown, self.touched = True, True
            self.purity(f"{desc} interrupted at call {k} ({lab})")
            return False
        except (Violation, HarnessError):
            raise
        except Exception as e:  # noqa: B902
            raise Violation("unexpected-exception", f"{desc}: raised {type(e).__name__}: {str(e)[:300]}") from e
        return True

    def enumerate_interrupts(self, ds, j):
        obj = self.obj
        other = self.pool[(self.pool.index(ds) + 1) % len(self.pool)]
        with CallPoints() as cp:
            obj.fit(*self.args(other))
        stride = max(1, -(-cp.count // 150))  # every call point up to 150 per fit, else an even stride
        positions = list(range(0, cp.count, stride))
        n = len(positions)
        for k in positions:
            where = f"fit(D other) interrupted@{k} then fit(D{j})"
            self.interrupted(lambda: obj.fit(*self.args(other)), k, where)
            self.must(where, lambda: obj.fit(*self.args(ds)))
            self.model = model_fit(self.spec, obj, *self.args(ds))
            self.unknown = False
            self.purity(where)
            self.compare(ds, where)
        self.probe("interrupt_positions_enumerated")
        self.probes["interrupt_positions_total"] = self.probes.get("interrupt_positions_total", 0) + n

    def check_filter(self, ds, res, model, out, desc):
        """filter returns the coordinates and weights it was given and data minus prediction, in the data's shape."""
        if not (isinstance(res, tuple) and len(res) == 3):
            raise Violation("filter-output", f"{desc}: filter returned {type(res).__name__} of length {len(res)}")
        coords, resid, weights = res
        if len(coords) != len(ds.coordinates) or not all(np.array_equal(a, b) for a, b in zip(coords, ds.coordinates)):
            raise Violation("filter-output", f"{desc}: filter did not return the coordinates it was given")
        w_in = ds.weights_arg()
        if (weights is None) != (w_in is None) or (weights is not None and not all(np.array_equal(a, b) for a, b in zip(arrays_of(weights), arrays_of(w_in)))):
            raise Violation("filter-output", f"{desc}: filter did not return the weights it was given")
        r = _tup(resid)
        if len(r) != ds.ncomp or any(a.shape != d.shape for a, d in zip(r, ds.data)):
            raise Violation("filter-output", f"{desc}: residuals do not have the data's shape/components")
        if isinstance(resid, tuple) != (ds.ncomp > 1):
            raise Violation("filter-output", f"{desc}: residual container does not match the data's")
        # data minus prediction: prediction (at the data) + residual == data
        want = _tup(out[1])
        self.close(r, want, ds, "filter-residual", f"{desc}: residuals differ from data minus the separately computed prediction")
        if not all(np.all(np.isfinite(d)) for d in ds.data):
            return  # NaN-poisoned data accepted by the steps: NaN arithmetic makes the identity meaningless
        pred = _tup(self.obj.predict(ds.coordinates))
        recon = tuple(p.reshape(d.shape) + x for p, x, d in zip(pred, r, ds.data))
        self.close(recon, ds.data, ds, "prediction-plus-residual", f"{desc}: prediction at the data plus the residual does not give back the data")

    def op_predict(self):
        desc = "predict(Q)"
        self.trace.append(desc)
        if not can_predict(self.spec):
            return
        if not self.touched:
            try:
                self.obj.predict(self.q)
                self.probe("predict_before_fit_returns_not_judged_here")  # C20's statement
            except Exception:  # noqa: B902
                self.probe("predict_before_fit_raises")
            return
        if self.unknown or self.model is None:
            try:
                self.obj.predict(self.q)
            except Exception:  # noqa: B902
                pass
            self.purity(desc)
            return
        got = self.must(desc, lambda: self.obj.predict(self.q))
        want = model_predict(self.model, self.q)
        ds = self.last_ds
        self.close(_tup(got), _tup(want), ds, "composite-prediction", f"{desc}: composite prediction differs from the sum of the separately fitted steps")
        self.last_predict = tuple(a.copy() for a in _tup(got))
        self.purity(desc)

    def op_clone(self):
        from sklearn.base import clone

        self.trace.append("clone -> continue on the clone")
        new = self.must("clone", lambda: clone(self.obj))
        if freeze_params(new) != freeze_params(self.obj):
            self.probe("clone_differs_not_judged_here")  # C20's statement
            return
        self.obj = new
        self.model, self.last, self.unknown, self.touched, self.last_predict = None, None, False, False, None
        self.probe("continued_on_clone")

    def step(self):
        self.ops += 1
        op = self.tape.weighted([("fit", 14), ("predict", 8), ("poison", 3), ("clone", 1)], "op")
        if op == "fit":
            self.op_fit()
        elif op == "predict":
            self.op_predict()
        elif op == "poison":
            self.op_fit(poisoned=True)
        else:
            self.op_clone()


def run(tape, opts=None):
    opts = opts or {}
    warnings.resetwarnings()
    warnings.simplefilter("ignore")
    np.random.seed(tape.draw(1 << 31, "global_rng"))
    h = History(tape, opts)
    nops = tape.randint(6, 14, "nops")
    try:
        for _ in range(nops):
            h.step()
    except Violation as v:
        v.trace = {"composite": h.spec, "datasets": [d.desc for d in h.pool], "history": h.trace}
        raise
    except ArgumentsChanged:
        h.probe("argument_arrays_changed_not_judged_here")
    finally:
        if sys.gettrace() is not None:
            sys.settrace(None)
    return {
        "op": "history",
        "probes": h.probes,
        "fired": h.fired,
        "extra": {"operations": h.ops},
        "maxdiff": h.maxdiff,
        "sample": {"composite": h.spec, "ncomp": h.ncomp, "weights": h.has_w, "history": h.trace},
        "steps": h.ops,
        "yields": 0,
        "states": {hash64(repr(h.spec))},
        "interleaving": hash64(repr([t.split("(")[0] for t in h.trace])),
        "log_digest": str(hash64(repr(h.trace))),
        "nontrivial": any(h.flags.values()),
    }
