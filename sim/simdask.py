"""
Stubs for the part of dask that executes tasks.

* ``SimExecutor.get(dsk, keys)`` is a dask scheduler ("get" function): graph
  construction, collection and culling are dask's real code, only the executor
  is replaced by actors on the baton scheduler.
* ``SimClient`` / ``SimFuture`` stand in for ``distributed.Client`` /
  ``Future`` (``submit`` / ``result`` only, which is all verde uses).

Fault kinds (see DESIGN 2.4): reorder, stall, worker crash + retry, duplicate
execution, serialisation boundary.
"""
import sys

import cloudpickle
import numpy as np

from .sched import HarnessError, Sched, Violation, strip_attempt


class _Counter:
    """Deterministic stand-in for the ``uuid`` module inside dask.delayed."""

    def __init__(self):
        self.n = 0

    def uuid4(self):
        self.n += 1
        return f"{self.n:08d}-0000-4000-8000-000000000000"


class patched_dask_uuid:
    """Context manager: dask.delayed keys become counter based (replayable)."""

    def __enter__(self):
        import dask.delayed  # noqa: F401

        self.mod = sys.modules["dask.delayed"]
        self.orig = self.mod.uuid
        self.mod.uuid = _Counter()
        return self

    def __exit__(self, *exc):
        self.mod.uuid = self.orig
        return False


def same_value(a, b, rtol=1e-9):
    """Equality of two task results (scores, arrays of scores, indices)."""
    try:
        a_arr = np.asarray(a, dtype=float)
        b_arr = np.asarray(b, dtype=float)
    except (TypeError, ValueError):
        return repr(a) == repr(b)
    if a_arr.shape != b_arr.shape:
        return False
    return bool(np.all(np.isclose(a_arr, b_arr, rtol=rtol, atol=0.0, equal_nan=True)))


class SimExecutor:
    """One per run.  Owns the Sched and the fault bookkeeping shared by get() and the client."""

    def __init__(self, tape, cfg, root=None):
        self.tape = tape
        self.cfg = cfg
        self.sched = Sched(tape, cfg, root)
        self.sched.on_finish = self._finished
        self.first = {}  # task id -> first completed result
        self.jobs = {}  # task id -> job record
        self.fired = {"retry": 0, "dup": 0, "dup_concurrent": 0, "serialize": 0, "task_error": 0}
        self.history = []  # (event, task id, attempt, logical time)
        self.dup_left = cfg.dup_budget
        self.n_gets = 0
        self.n_submits = 0
        self.done_counter = 0

    # ------------------------------------------------------------- plumbing
    def _transport(self, obj):
        if not self.cfg.serialize:
            return obj
        self.fired["serialize"] += 1
        return cloudpickle.loads(cloudpickle.dumps(obj))

    def _launch(self, tid, attempt_tag):
        job = self.jobs[tid]
        job["attempts"] += 1
        name = f"{tid}#{attempt_tag}{job['attempts']}"
        make = job["make"]

        def body():
            # argument objects: shared-memory -> the very same objects on every
            # attempt; serialising -> fresh copies per attempt
            call = make()
            return call()

        a = self.sched.spawn(name, body, killable=True, meta={"tid": tid, "tag": attempt_tag})
        self.history.append(("invoke", tid, name, self.sched.yields))
        return a

    def add_job(self, tid, make):
        self.jobs[tid] = {"make": make, "attempts": 0, "done": False, "failed": None}
        return self._launch(tid, "a")

    def _finished(self, a):
        tid = a.meta.get("tid")
        if tid is None:
            return
        job = self.jobs[tid]
        self.history.append((a.state, tid, a.name, self.sched.yields))
        if a.state == "killed":
            # worker died: the task is run again from scratch
            self.fired["retry"] += 1
            self._launch(tid, "r" if a.meta["tag"] != "d" else "d")
            return
        if a.state == "failed":
            self.fired["task_error"] += 1
            if a.meta["tag"] == "d":
                if job["failed"] is None:
                    raise Violation(
                        "re-execution-raised",
                        f"task {tid} succeeded first, then raised {type(a.exc).__name__}: {a.exc} when executed again",
                    )
                return
            job["failed"] = a.exc
            job["done"] = True
            self.done_counter += 1
            job["done_seq"] = self.done_counter
            return
        # done
        res = self._transport(a.result)
        if a.meta["tag"] == "d":
            if job["failed"] is not None:
                raise Violation("re-execution-differs", f"task {tid} raised first, then returned {res!r}")
            if not same_value(self.first[tid], res):
                raise Violation(
                    "re-execution-differs",
                    f"task {tid}: first execution returned {self.first[tid]!r}, executing it again returned {res!r}",
                )
            return
        if not job["done"]:
            self.first[tid] = res
            job["done"] = True
            self.done_counter += 1
            job["done_seq"] = self.done_counter
        # duplicate execution (work stealing / recompute of a lost result)
        if self.dup_left > 0 and self.tape.coin(0.5, "dup?"):
            self.dup_left -= 1
            self.fired["dup"] += 1
            if any(x.active for x in self.sched.actors.values()):
                self.fired["dup_concurrent"] += 1
            self._launch(tid, "d")

    def all_quiet(self):
        return all(a.finished for a in self.sched.actors.values())

    # ---------------------------------------------------------- dask "get"
    def get(self, dsk, keys, **kwargs):  # noqa: U100
        from dask._task_spec import convert_legacy_graph

        self.n_gets += 1
        gid = self.n_gets
        graph = dsk.__dask_graph__() if hasattr(dsk, "__dask_graph__") else dsk
        graph = convert_legacy_graph(dict(graph))
        cache = {}
        tids = {}
        pending = {}
        for k in sorted(graph, key=str):
            t = graph[k]
            tids[k] = f"g{gid}:{k}"
            pending[k] = sorted(t.dependencies, key=str)
        blobs = {}
        if self.cfg.serialize:
            for k, t in graph.items():
                blobs[k] = cloudpickle.dumps(t)
                self.fired["serialize"] += 1
        started = set()

        def submit_ready():
            changed = True
            while changed:  # a task skipped because a dependency failed may unblock (and fail) its own dependants
                changed = False
                for k in sorted(pending, key=str):
                    if k in started:
                        continue
                    if all(d in cache for d in pending[k]):
                        started.add(k)
                        self._add_graph_job(k, tids[k], graph, blobs, cache, pending[k])
                        changed = changed or k in cache

        submit_ready()
        prev_finish = self.sched.on_finish

        def on_finish(a):
            prev_finish(a)
            tid = a.meta.get("tid")
            for k, t in tids.items():
                if t == tid and self.jobs[tid]["done"] and k not in cache:
                    if self.jobs[tid]["failed"] is not None:
                        cache[k] = _Failed(self.jobs[tid]["failed"])
                    else:
                        cache[k] = self.first[tid]
            submit_ready()

        self.sched.on_finish = on_finish
        try:
            self.sched.run_until(lambda: all(k in cache for k in graph) and self.all_quiet())
        finally:
            self.sched.on_finish = prev_finish
        for k in sorted(graph, key=str):
            if isinstance(cache[k], _Failed):
                raise cache[k].exc
        self._check_graph_history(gid, graph, tids)

        def lookup(k):
            if isinstance(k, list):
                return [lookup(i) for i in k]
            return cache[k]

        return lookup(keys)

    def _add_graph_job(self, k, tid, graph, blobs, cache, deps):
        failed = [d for d in deps if isinstance(cache[d], _Failed)]
        if failed:
            # dask does not run dependants of a failed task; the failure propagates
            cache[k] = cache[failed[0]]
            return

        def make():
            if self.cfg.serialize:
                task = cloudpickle.loads(blobs[k])
                args = {d: cloudpickle.loads(cloudpickle.dumps(cache[d])) for d in deps}
            else:
                task = graph[k]
                args = {d: cache[d] for d in deps}
            return lambda: task(args)

        self.add_job(tid, make)

    def _check_graph_history(self, gid, graph, tids):
        """Harness sanity over the recorded history (never fails on a correct simulator)."""
        first_done = {}
        first_invoke = {}
        for ev, tid, _name, t in self.history:
            if ev == "invoke":
                first_invoke.setdefault(tid, t)
            elif ev in ("done", "failed"):
                first_done.setdefault(tid, t)
        for k, task in graph.items():
            tid = tids[k]
            if tid not in self.jobs:
                continue  # skipped because a dependency failed
            if tid not in first_done:
                raise HarnessError(f"task {tid} never completed")
            for d in task.dependencies:
                dt = tids[d]
                if dt in first_done and first_invoke[tid] < first_done[dt]:
                    raise HarnessError(f"{tid} started before its dependency {dt} completed")


class StubLimit(Exception):
    """The code under test used a part of the distributed API the stub does not provide: no claim, never an alarm."""


def through_distributed(exc):
    """True if the exception was raised inside the real `distributed` package (handling our stub objects)."""
    tb = exc.__traceback__
    while tb is not None:
        fn = tb.tb_frame.f_code.co_filename
        if "/distributed/" in fn:
            return True
        tb = tb.tb_next
    return False


class SimAsCompleted:
    """distributed.as_completed over SimFutures: yields in the COMPLETION order the simulated schedule produced."""

    def __init__(self, futures=None, loop=None, with_results=False, raise_errors=True):  # noqa: U100
        self.pending = list(futures or [])
        self.with_results = with_results
        self.raise_errors = raise_errors

    def add(self, future):
        self.pending.append(future)

    def update(self, futures):
        self.pending.extend(futures)

    def count(self):
        return len(self.pending)

    def is_empty(self):
        return not self.pending

    def __iter__(self):
        return self

    def __next__(self):
        if not self.pending:
            raise StopIteration
        ex = self.pending[0]._ex
        ex.sched.run_until(lambda: any(f.done() for f in self.pending))
        done = sorted((f for f in self.pending if f.done()), key=lambda f: ex.jobs[f._tid]["done_seq"])
        f = done[0]
        self.pending.remove(f)
        ex.sched.probe("as_completed_yield")
        if self.with_results:
            return f, (f.result() if self.raise_errors else f._result_or_exception())
        return f


def sim_wait(fs, timeout=None, return_when="ALL_COMPLETED"):  # noqa: U100
    import collections

    fs = list(fs)
    if fs:
        ex = fs[0]._ex
        if return_when == "FIRST_COMPLETED":
            ex.sched.run_until(lambda: any(f.done() for f in fs))
        else:
            ex.sched.run_until(lambda: all(f.done() for f in fs))
    DoneAndNotDone = collections.namedtuple("DoneAndNotDone", ["done", "not_done"])
    return DoneAndNotDone({f for f in fs if f.done()}, {f for f in fs if not f.done()})


class patched_distributed_api:
    """While a SimClient is in use, distributed.as_completed / wait work on SimFutures."""

    NAMES = {"as_completed": SimAsCompleted, "wait": sim_wait}

    def __enter__(self):
        import importlib

        self.saved = []
        for modname in ("distributed", "distributed.client", "dask.distributed"):
            try:
                mod = importlib.import_module(modname)
            except Exception:  # noqa: B902
                continue
            for name, repl in self.NAMES.items():
                if hasattr(mod, name):
                    self.saved.append((mod, name, getattr(mod, name)))
                    setattr(mod, name, repl)
        return self

    def __exit__(self, *exc):
        for mod, name, orig in self.saved:
            setattr(mod, name, orig)
        return False


class _Failed:
    def __init__(self, exc):
        self.exc = exc


class SimFuture:
    def __init__(self, ex, tid):
        self._ex = ex
        self._tid = tid

    @property
    def key(self):
        return self._tid

    @property
    def status(self):
        job = self._ex.jobs[self._tid]
        return "pending" if not job["done"] else ("error" if job["failed"] is not None else "finished")

    def done(self):
        return self._ex.jobs[self._tid]["done"]

    def cancel(self, *a, **kw):  # noqa: U100
        return None

    def exception(self, timeout=None):  # noqa: U100
        self._ex.sched.run_until(lambda: self._ex.jobs[self._tid]["done"])
        return self._ex.jobs[self._tid]["failed"]

    def _result_or_exception(self):
        exc = self.exception()
        return exc if exc is not None else self._ex.first[self._tid]

    def result(self, timeout=None):  # noqa: U100
        ex = self._ex
        ex.sched.run_until(lambda: ex.jobs[self._tid]["done"])
        job = ex.jobs[self._tid]
        if job["failed"] is not None:
            raise job["failed"]
        return ex.first[self._tid]


class SimClient:
    """Stands in for distributed.Client: submit() only."""

    def __init__(self, ex):
        self._ex = ex

    # keyword arguments that distributed.Client.submit consumes itself (never passed to the function)
    _SUBMIT_OPTIONS = ("key", "workers", "resources", "retries", "priority", "fifo_timeout", "allow_other_workers", "actor", "actors", "pure")

    def submit(self, fn, *args, **kwargs):
        ex = self._ex
        ex.n_submits += 1
        for opt in self._SUBMIT_OPTIONS:
            kwargs.pop(opt, None)
        tid = f"s{ex.n_submits}:{getattr(fn, '__name__', None) or getattr(getattr(fn, 'func', None), '__name__', 'fn')}"
        # futures passed as arguments are dependencies: the task receives their results
        deps = [a for a in list(args) + list(kwargs.values()) if isinstance(a, SimFuture)]

        def resolve(x):
            return x.result() if isinstance(x, SimFuture) else x

        if deps:
            ex.sched.run_until(lambda: all(d.done() for d in deps))
            args = tuple(resolve(a) for a in args)
            kwargs = {k: resolve(v) for k, v in kwargs.items()}
        if ex.cfg.serialize:
            blob = cloudpickle.dumps((fn, args, kwargs))
            ex.fired["serialize"] += 1

            def make():
                f, a, kw = cloudpickle.loads(blob)
                return lambda: f(*a, **kw)

        else:

            def make():
                return lambda: fn(*args, **kwargs)

        ex.add_job(tid, make)
        # real workers start while the caller is still submitting: let the
        # cluster advance a tape-chosen number of steps before returning
        for _ in range(ex.tape.draw(4, "advance")):
            if not ex.sched.step():
                break
        return SimFuture(ex, tid)

    def map(self, fn, *iterables, **kwargs):
        return [self.submit(fn, *args, **kwargs) for args in zip(*iterables)]

    def gather(self, futures, errors="raise"):  # noqa: U100
        if isinstance(futures, SimFuture):
            return futures.result()
        if isinstance(futures, (list, tuple, set)):
            return type(futures)(self.gather(f) for f in futures)
        if isinstance(futures, dict):
            return {k: self.gather(v) for k, v in futures.items()}
        return futures

    def compute(self, collections, **kwargs):  # noqa: U100
        import dask

        single = not isinstance(collections, (list, tuple))
        out = dask.compute(*([collections] if single else collections), scheduler=self._ex.get)
        return out[0] if single else list(out)

    def drain(self):
        """Wait for everything (also duplicates) to finish."""
        self._ex.sched.drain()


__all__ = ["SimExecutor", "SimClient", "SimFuture", "patched_dask_uuid", "patched_distributed_api", "StubLimit", "through_distributed", "strip_attempt"]
