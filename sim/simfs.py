"""
Simulated disk and text streams for load_surfer (surface S2).

``SimDisk`` keeps named text files.  ``SimFile`` implements what
``load_surfer`` and ``numpy.loadtxt`` use from a text file object
(``readline``, iteration, ``close``/``closed``, ``encoding``, context manager),
counts read calls, and can at read call *k* raise ``OSError(EIO)``, report a
premature EOF (the rest of the file was never written: torn / lost write) or
raise ``SimInterrupt``.

Path input reaches the disk through the ``open`` name: while a ``SimDisk`` is
installed, ``builtins.open`` / ``io.open`` of a path the disk owns return a
``SimFile``; every other path passes through untouched.  The disk keeps a
table of the handles *it* opened, so leaks are observable.  The same bytes are
also written to a real scratch file at that path, so code that bypasses the
seam (say, handing the path straight to numpy) still reads the right file - it
merely cannot be fault-injected.
"""
import builtins
import errno
import io
import os
import shutil
import tempfile

from .inject import SimInterrupt


class SimFile:
    def __init__(self, disk, name, text, fault=None, owned=False):
        # universal newlines, as a real text-mode file would deliver them
        text = text.replace("\r\n", "\n").replace("\r", "\n")
        self._lines = text.split("\n")
        # "a\nb\n" -> ["a\n", "b\n"]; "a\nb" -> ["a\n", "b"]
        last = self._lines.pop()
        self._lines = [ln + "\n" for ln in self._lines] + ([last] if last else [])
        self._pos = 0
        self._disk = disk
        self.name = name
        self.encoding = "utf-8"
        self.closed = False
        self.owned = owned  # opened by the function under test (through the disk)
        self.fault = fault  # None or (kind, k)
        self.read_calls = 0
        self.fired = None
        self.delivered = []  # the lines actually handed out
        self._eof_forced = False
        self.rewound = False
        self.mode = "r"

    # ------------------------------------------------------------- reading
    def _read_one(self):
        if self.closed:
            raise ValueError("I/O operation on closed file.")
        k = self.read_calls
        self.read_calls += 1
        if self.fault is not None and self.fired is None and k == self.fault[1]:
            kind = self.fault[0]
            self.fired = (kind, k)
            if kind == "eio":
                raise OSError(errno.EIO, "Input/output error (injected)", self.name)
            if kind == "interrupt":
                raise SimInterrupt(f"injected at read call {k}")
            if kind == "eof":
                self._eof_forced = True
        if self._eof_forced or self._pos >= len(self._lines):
            return None
        line = self._lines[self._pos]
        self._pos += 1
        self.delivered.append(line)
        return line

    def readline(self, size=-1):  # noqa: U100
        line = self._read_one()
        return "" if line is None else line

    def __iter__(self):
        return self

    def __next__(self):
        line = self._read_one()
        if line is None:
            raise StopIteration
        return line

    def readlines(self, hint=-1):  # noqa: U100
        out = []
        while True:
            line = self._read_one()
            if line is None:
                return out
            out.append(line)

    def read(self, size=-1):  # noqa: U100
        return "".join(self.readlines())

    def readable(self):
        return True

    def writable(self):
        return False

    def seekable(self):
        return True

    def tell(self):
        if self.closed:
            raise ValueError("I/O operation on closed file.")
        return sum(len(ln) for ln in self._lines[: self._pos])

    def seek(self, offset, whence=0):
        """Line-granular: only positions previously returned by tell() (and 0) are meaningful."""
        if self.closed:
            raise ValueError("I/O operation on closed file.")
        if whence == 2:
            self._pos = len(self._lines)
            return self.tell()
        if whence == 1:
            offset += self.tell()
        total = 0
        self._pos = len(self._lines)
        for i, ln in enumerate(self._lines):
            if total >= offset:
                self._pos = i
                break
            total += len(ln)
        self.rewound = True
        return self.tell()

    def fileno(self):
        raise io.UnsupportedOperation("fileno")

    def remaining_text(self):
        """What a reader starting now would be delivered (ignoring faults not yet fired)."""
        if self._eof_forced:
            return ""  # the file really ends where the torn write ended
        return "".join(self._lines[self._pos:])

    # ------------------------------------------------------------ lifetime
    def close(self):
        if not self.closed:
            self.closed = True
            self._disk._closed(self)

    def __enter__(self):
        if self.closed:
            raise ValueError("I/O operation on closed file.")
        return self

    def __exit__(self, *exc):
        self.close()
        return False


class SimDisk:
    def __init__(self):
        self.root = tempfile.mkdtemp(prefix="verif-c19-", dir="/dev/shm" if os.path.isdir("/dev/shm") else None)
        self.files = {}
        self.open_handles = []  # handles opened through the seam and not yet closed
        self.opened_total = 0
        self.closed_total = 0
        self.next_fault = None  # fault plan for the next handle opened through the seam
        self.open_error = None  # errno to raise at the next open through the seam
        self.last_handle = None
        self._orig = None

    # ---------------------------------------------------------------- files
    def path(self, name):
        return os.path.join(self.root, name)

    def write(self, name, text):
        self.files[self.path(name)] = text
        with io.open(self.path(name), "w", newline="") as f:
            f.write(text)
        return self.path(name)

    def handle(self, name, fault=None):
        """A handle opened by the *caller* (not tracked as the function's)."""
        return SimFile(self, self.path(name), self.files[self.path(name)], fault=fault, owned=False)

    # ----------------------------------------------------------------- seam
    def _open(self, file, mode="r", *args, **kwargs):
        try:
            key = os.fspath(file) if not isinstance(file, int) else None
        except TypeError:
            key = None
        if isinstance(key, bytes):
            key = os.fsdecode(key)
        if key is not None:
            key = os.path.abspath(key)
        if key not in self.files or any(c in mode for c in "wax+b"):
            return self._orig[0](file, mode, *args, **kwargs)
        if self.open_error is not None:
            err, self.open_error = self.open_error, None
            raise OSError(err, os.strerror(err) + " (injected)", key)
        fault, self.next_fault = self.next_fault, None
        f = SimFile(self, key, self.files[key], fault=fault, owned=True)
        self.open_handles.append(f)
        self.opened_total += 1
        self.last_handle = f
        return f

    def _closed(self, f):
        if f.owned and f in self.open_handles:
            self.open_handles.remove(f)
            self.closed_total += 1

    def install(self):
        self._orig = (builtins.open, io.open)
        builtins.open = self._open
        io.open = self._open

    def uninstall(self):
        if self._orig is not None:
            builtins.open, io.open = self._orig
            self._orig = None

    def destroy(self):
        self.uninstall()
        shutil.rmtree(self.root, ignore_errors=True)

    def __enter__(self):
        self.install()
        return self

    def __exit__(self, *exc):
        self.destroy()
        return False
