#!/usr/bin/env python3
"""
Sensitivity self-test: apply each breaking change of mutants/mutants.json to a
scratch copy of /repo/verde (outside /repo and /verif, removed afterwards), run
the quick check of the property it targets with VERIF_REPO pointing at the
copy, and report whether a VIOLATION was printed and whether its replay file
reproduces.  usage: tools/sensitivity.py [property|mutant-id ...] [--runs N]
"""
import json
import os
import re
import shutil
import subprocess
import sys
import tempfile

HERE = os.path.dirname(os.path.dirname(os.path.abspath(__file__)))


def main():
    args = [a for a in sys.argv[1:] if not a.startswith("--")]
    runs = None
    for a in sys.argv[1:]:
        if a.startswith("--runs="):
            runs = a.split("=")[1]
    muts = json.load(open(os.path.join(HERE, "mutants", "mutants.json")))
    if args:
        muts = [m for m in muts if m["property"] in args or m["id"] in args]
    results = []
    for m in muts:
        scratch = tempfile.mkdtemp(prefix="verif-mut-")
        try:
            shutil.copytree("/repo/verde", os.path.join(scratch, "verde"), ignore=shutil.ignore_patterns("__pycache__"))
            ok = True
            for ed in m["edits"]:
                path = os.path.join(scratch, ed["file"])
                src = open(path).read()
                if src.count(ed["old"]) != 1:
                    print(f"{m['id']}: edit does not apply uniquely ({src.count(ed['old'])} matches) in {ed['file']}")
                    ok = False
                    break
                open(path, "w").write(src.replace(ed["old"], ed["new"]))
            if not ok:
                results.append((m, "NOT-APPLIED", None))
                continue
            env = dict(os.environ, VERIF_REPO=scratch)
            cmd = [os.path.join(HERE, "bin", "check"), m["property"], "--tier", "quick", "--no-evidence"]
            if runs:
                cmd += ["--runs", runs]
            out = subprocess.run(cmd, env=env, capture_output=True, text=True)
            viol = re.findall(r"^VIOLATION property=(\S+) replay=(\S+)", out.stdout, re.M)
            oracle = re.findall(r"^violation: oracle=(\S+)", out.stdout, re.M)
            status = "MISSED"
            rep = None
            if out.returncode == 1 and viol:
                status = "CAUGHT"
                r = subprocess.run([os.path.join(HERE, "bin", "check"), m["property"], "--replay", viol[0][1]], env=env, capture_output=True, text=True)
                rep = "replays" if r.returncode == 1 else f"REPLAY-FAILED rc={r.returncode}"
                r2 = subprocess.run([os.path.join(HERE, "bin", "check"), m["property"], "--replay", viol[0][1]], capture_output=True, text=True)
                rep += ", clean on /repo" if r2.returncode == 0 else f", ALSO FAILS ON /repo rc={r2.returncode}"
            elif out.returncode != 0:
                status = f"HARNESS rc={out.returncode}"
                print(out.stdout[-1500:], out.stderr[-1500:])
            if m.get("expect") == "conforms" and status == "MISSED":
                status = "CONFORMS"  # withdrawn mutant: the change does not violate the statement, silence is right
            results.append((m, status, (oracle[:1], rep)))
            print(f"{m['id']:42s} {m['property']} {status:8s} {oracle[:1]} {rep}", flush=True)
        finally:
            shutil.rmtree(scratch, ignore_errors=True)
    missed = [m["id"] for m, s, _ in results if s not in ("CAUGHT", "CONFORMS")]
    print(f"{len(results) - len(missed)}/{len(results)} caught; missed: {missed}")
    return 1 if missed else 0


if __name__ == "__main__":
    sys.exit(main())
