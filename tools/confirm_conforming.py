#!/usr/bin/env python3
"""
Keep a behaviour-preserving change (written by a sub-agent as a false-alarm probe) after confirming, in a
fresh scratch worktree, that it applies, touches only library code, passes the pinned suite and passes its
own equivalence script check.py.   usage: confirm_conforming.py <candidate dir> <id> <property> "<what it restructures>"
"""
import json
import os
import shutil
import sys
import tempfile

sys.path.insert(0, os.path.dirname(os.path.abspath(__file__)))
from confirm_seeded import HERE, pinned_suite, sh  # noqa: E402


def main():
    cand, sid, prop, what = sys.argv[1:5]
    patch = os.path.join(cand, "patch.diff")
    wt = tempfile.mkdtemp(prefix="verif-confirm-")
    os.rmdir(wt)
    try:
        assert sh(["git", "-C", "/repo", "worktree", "add", "--detach", wt, "HEAD"]).returncode == 0
        if sh(["git", "-C", wt, "apply", patch]).returncode != 0:
            print("REJECT: patch does not apply")
            return 1
        files = sh(["git", "-C", wt, "diff", "--name-only"]).stdout.split()
        if any("/tests/" in f or not f.startswith("verde/") for f in files):
            print("REJECT: touches non-library files", files)
            return 1
        missing, npassed = pinned_suite(wt)
        if missing:
            print("REJECT: pinned tests fail:", missing)
            return 1
        env = dict(os.environ, PYTHONPATH=wt, OPENBLAS_NUM_THREADS="1", OMP_NUM_THREADS="1")
        r = sh(["/venv/bin/python", os.path.join(cand, "check.py")], env=env, cwd=cand, timeout=1800)
        if r.returncode != 0:
            print("REJECT: its own equivalence check fails\n", r.stdout[-1500:], r.stderr[-1500:])
            return 1
        out = os.path.join(HERE, "seeded", sid)
        os.makedirs(out, exist_ok=True)
        shutil.copy(patch, os.path.join(out, "patch.diff"))
        shutil.copy(os.path.join(cand, "check.py"), os.path.join(out, "check.py"))
        if os.path.exists(os.path.join(cand, "notes.md")):
            shutil.copy(os.path.join(cand, "notes.md"), os.path.join(out, "notes.md"))
        meta = {
            "id": sid,
            "property": prop,
            "expect": "conforms",
            "what": what,
            "files": files,
            "confirmed": [f"patch applies; files: {files}", f"pinned suite with patch: {npassed} passed, baseline tests not passing: []", "its equivalence script check.py: exit 0"],
            "why_kept": "behaviour-preserving change written independently as a false-alarm probe: the check must stay SILENT on it",
            "checks": {},
        }
        json.dump(meta, open(os.path.join(out, "meta.json"), "w"), indent=1)
        print("KEPT", sid)
        return 0
    finally:
        sh(["git", "-C", "/repo", "worktree", "remove", "--force", wt])
        shutil.rmtree(wt, ignore_errors=True)


if __name__ == "__main__":
    sys.exit(main())
