#!/usr/bin/env python3
"""
Confirm a candidate seeded change myself before keeping it:

  tools/confirm_seeded.py <candidate dir with patch.diff + demo.py [+ notes.md]> <seeded id> <property> "<what it needs to manifest>"

In a fresh scratch git worktree of /repo (under /tmp, removed afterwards):
  1. the demo passes (exit 0) on the clean tree,
  2. the patch applies, touches only library sources (no tests),
  3. the pinned suite still passes with it (every BASELINE.json stable_pass test),
  4. the demo fails (exit != 0) with the patch.
Only then is /verif/seeded/<id>/ written (patch.diff, demo.py, notes.md, meta.json).
"""
import json
import os
import shutil
import subprocess
import sys
import tempfile
import xml.etree.ElementTree as ET

HERE = os.path.dirname(os.path.dirname(os.path.abspath(__file__)))


def sh(cmd, **kw):
    return subprocess.run(cmd, capture_output=True, text=True, **kw)


def pinned_suite(wt, workers="8"):
    base = json.load(open("/root/.vp/BASELINE.json"))
    want = set(base["stable_pass"])
    out = tempfile.mktemp(suffix=".xml")
    env = dict(os.environ, OPENBLAS_NUM_THREADS="1", OMP_NUM_THREADS="1")
    sh(["/venv/bin/python", "-m", "pytest", "-q", "-p", "no:cacheprovider", "--timeout=900", "--continue-on-collection-errors", "-n", workers, f"--junitxml={out}"], cwd=wt, env=env)
    passed = set()
    for tc in ET.parse(out).getroot().iter("testcase"):
        if not any(ch.tag in ("failure", "error", "skipped") for ch in tc):
            passed.add(f"{tc.get('classname')}::{tc.get('name')}")
    os.unlink(out)
    return sorted(want - passed), len(passed)


def main():
    cand, sid, prop, needs = sys.argv[1:5]
    patch = os.path.join(cand, "patch.diff")
    demo = os.path.join(cand, "demo.py")
    wt = tempfile.mkdtemp(prefix="verif-confirm-")
    os.rmdir(wt)
    ran = []
    ok = False
    try:
        r = sh(["git", "-C", "/repo", "worktree", "add", "--detach", wt, "HEAD"])
        assert r.returncode == 0, r.stderr
        env = dict(os.environ, PYTHONPATH=wt, OPENBLAS_NUM_THREADS="1", OMP_NUM_THREADS="1")
        r1 = sh(["/venv/bin/python", demo], env=env, cwd=cand, timeout=900)
        ran.append(f"demo on clean tree: exit {r1.returncode}")
        if r1.returncode != 0:
            print("REJECT: demo fails on the clean tree\n", r1.stdout[-1500:], r1.stderr[-1500:])
            return 1
        r = sh(["git", "-C", wt, "apply", "--check", patch])
        if r.returncode != 0:
            print("REJECT: patch does not apply:", r.stderr)
            return 1
        sh(["git", "-C", wt, "apply", patch])
        files = sh(["git", "-C", wt, "diff", "--name-only"]).stdout.split()
        ran.append(f"patch applies; files: {files}")
        if any("/tests/" in f or not f.startswith("verde/") for f in files):
            print("REJECT: patch touches tests or non-library files:", files)
            return 1
        r = sh(["/venv/bin/python", "-c", "import verde"], env=env, cwd=wt)
        if r.returncode != 0:
            print("REJECT: import fails", r.stderr[-800:])
            return 1
        missing, npassed = pinned_suite(wt)
        ran.append(f"pinned suite with patch: {npassed} passed, baseline tests not passing: {missing}")
        if missing:
            print("REJECT: pinned tests fail with the patch:", missing)
            return 1
        r2 = sh(["/venv/bin/python", demo], env=env, cwd=cand, timeout=900)
        ran.append(f"demo with patch: exit {r2.returncode}")
        if r2.returncode == 0:
            print("REJECT: demo still passes with the patch")
            return 1
        ok = True
        out = os.path.join(HERE, "seeded", sid)
        os.makedirs(out, exist_ok=True)
        shutil.copy(patch, os.path.join(out, "patch.diff"))
        shutil.copy(demo, os.path.join(out, "demo.py"))
        if os.path.exists(os.path.join(cand, "notes.md")):
            shutil.copy(os.path.join(cand, "notes.md"), os.path.join(out, "notes.md"))
        meta = {
            "id": sid,
            "property": prop,
            "needs_to_manifest": needs,
            "files": files,
            "confirmed": ran,
            "demo_cmd": "PYTHONPATH=<tree> /venv/bin/python demo.py",
            "demo_failure_tail": (r2.stdout + r2.stderr)[-600:],
            "checks": {},
        }
        json.dump(meta, open(os.path.join(out, "meta.json"), "w"), indent=1)
        print("KEPT", sid, ran)
        return 0
    finally:
        sh(["git", "-C", "/repo", "worktree", "remove", "--force", wt])
        shutil.rmtree(wt, ignore_errors=True)
        if not ok:
            print("not kept:", sid)


if __name__ == "__main__":
    sys.exit(main())
