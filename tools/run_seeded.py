#!/usr/bin/env python3
"""
Run the registered checks against the kept seeded changes (/verif/seeded/<id>/).

Each patch is applied to a scratch copy of /repo's working tree outside /repo
and /verif (removed afterwards) and the property's check is pointed at it with
VERIF_REPO; this is equivalent to `git -C /repo apply patch.diff` + check +
`git -C /repo checkout -- .` but can never leave /repo dirty.  With --in-repo
the patch is applied to /repo itself and undone straight afterwards.

usage: tools/run_seeded.py [--tier quick|thorough] [--in-repo] [id ...]
"""
import json
import os
import re
import shutil
import subprocess
import sys
import tempfile

HERE = os.path.dirname(os.path.dirname(os.path.abspath(__file__)))


def run_check(prop, tier, env):
    cmd = [os.path.join(HERE, "bin", "check"), prop, "--tier", tier, "--no-evidence"]
    out = subprocess.run(cmd, env=env, capture_output=True, text=True)
    viol = re.findall(r"^VIOLATION property=(\S+) replay=(\S+)", out.stdout, re.M)
    oracle = re.findall(r"^violation: oracle=(\S+)", out.stdout, re.M)
    return out, viol, oracle


def main():
    tier = "quick"
    in_repo = False
    ids = []
    args = sys.argv[1:]
    while args:
        a = args.pop(0)
        if a == "--tier":
            tier = args.pop(0)
        elif a == "--in-repo":
            in_repo = True
        else:
            ids.append(a)
    root = os.path.join(HERE, "seeded")
    names = sorted(d for d in os.listdir(root) if os.path.isdir(os.path.join(root, d)))
    if ids:
        names = [n for n in names if n in ids or any(n.startswith(i) for i in ids)]
    summary = []
    for name in names:
        d = os.path.join(root, name)
        meta = json.load(open(os.path.join(d, "meta.json")))
        prop = meta["property"]
        patch = os.path.join(d, "patch.diff")
        env = dict(os.environ)
        scratch = None
        try:
            if in_repo:
                subprocess.run(["git", "-C", "/repo", "apply", patch], check=True)
            else:
                scratch = tempfile.mkdtemp(prefix="verif-seeded-")
                shutil.copytree("/repo/verde", os.path.join(scratch, "verde"), ignore=shutil.ignore_patterns("__pycache__"))
                subprocess.run(["patch", "-p1", "-s", "-d", scratch, "-i", patch], check=True)
                env["VERIF_REPO"] = scratch
            out, viol, oracle = run_check(prop, tier, env)
            status = "CAUGHT" if out.returncode == 1 and viol else ("MISSED" if out.returncode == 0 else f"HARNESS rc={out.returncode}")
            if meta.get("expect") == "conforms" and status == "MISSED":
                # a behaviour-preserving change must leave EVERY check silent, not only its own property's
                for other in ("C06", "C12", "C19", "C20"):
                    if other == prop:
                        continue
                    o2, v2, or2 = run_check(other, tier, env)
                    if o2.returncode != 0:
                        out, viol, oracle = o2, v2, or2
                        prop = other
                        status = "CAUGHT" if o2.returncode == 1 and v2 else f"HARNESS rc={o2.returncode}"
                        break
            if meta.get("expect") == "known-miss":
                status = {"MISSED": "KNOWN-MISS", "CAUGHT": "CAUGHT"}.get(status, status)
            if meta.get("expect") == "conforms":
                status = {"MISSED": "SILENT-OK", "CAUGHT": "FALSE-ALARM"}.get(status, status)
            rep = ""
            if status == "CAUGHT":
                r = subprocess.run([os.path.join(HERE, "bin", "check"), prop, "--replay", viol[0][1]], env=env, capture_output=True, text=True)
                rep = "replay reproduces" if r.returncode == 1 else f"REPLAY rc={r.returncode}"
            elif status.startswith("HARNESS"):
                print(out.stdout[-2000:], out.stderr[-2000:])
        finally:
            if in_repo:
                subprocess.run(["git", "-C", "/repo", "checkout", "--", "."], check=True)
            if scratch:
                shutil.rmtree(scratch, ignore_errors=True)
        if status == "CAUGHT" and not in_repo:
            r2 = subprocess.run([os.path.join(HERE, "bin", "check"), prop, "--replay", viol[0][1]], capture_output=True, text=True)
            rep += "; clean on /repo" if r2.returncode == 0 else f"; ALSO FAILS ON /repo rc={r2.returncode}"
        print(f"{name:38s} {prop} {tier:8s} {status:8s} {oracle[:1]} {rep}", flush=True)
        if not in_repo or True:
            meta.setdefault("checks", {})[tier] = {"cmd": f"bin/check {prop} --tier {tier} (VERIF_REPO=scratch copy with patch.diff applied)", "status": status, "oracle": oracle[:1], "replay": rep}
            json.dump(meta, open(os.path.join(d, "meta.json"), "w"), indent=1)
        summary.append((name, status))
    missed = [n for n, s in summary if s not in ("CAUGHT", "SILENT-OK", "KNOWN-MISS")]
    print(f"{len(summary) - len(missed)}/{len(summary)} caught; not caught: {missed}")
    return 1 if missed else 0


if __name__ == "__main__":
    sys.exit(main())
