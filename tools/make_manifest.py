#!/usr/bin/env python3
"""Regenerate /verif/MANIFEST.json (kept as a script so the file stays consistent)."""
import json
import os

HERE = os.path.dirname(os.path.dirname(os.path.abspath(__file__)))

NA = {
    "C01": "Exactness of interpolation is a numerical relation between input and output arrays of deterministic linear algebra; no schedule, stream, clock, fault or call history for a simulator to control (pure function of its inputs).",
    "C02": "Optimality of the weighted/damped least-squares solution is a pure function of (design matrix, data, weights, damping); nothing to interleave, delay or fail.",
    "C03": "Kernels, Jacobians and the checkerboard are closed-form functions of coordinates and parameters; the numba prange variants are not installed here, so not even a parallel loop exists to schedule.",
    "C04": "A metamorphic relation between pairs of pure calls (permutation, reshape, dtype, linearity); no nondeterminism to put behind a seam.",
    "C05": "grid/profile/scatter compute coordinates, call predict once and package the result; deterministic, no I/O, the scatter seed is an explicit integer input.",
    "C07": "line/grid/profile coordinates and spacing<->shape conversions are scalar arithmetic; input enumeration/SMT territory, not simulation.",
    "C08": "block_split is a k-d-tree nearest-centre query on its arguments; deterministic and stateless.",
    "C09": "BlockReduce.filter is a pandas group-by of its arguments; the object keeps no fitted state and does no I/O.",
    "C10": "BlockMean.filter / variance_to_weights are pure array computations (their one impurity, the in-place NaN overwrite, is a C20 matter and is checked there).",
    "C11": "Split generation is combinatorics on block labels; with a fixed random_state the RNG is an input. The independence-from-global-RNG clause is exercised as an operation of the C20 history machine.",
    "C13": "Bounding boxes, closed-box predicates and pads are pure; scatter_points reproducibility under global-RNG perturbation is exercised under C20.",
    "C14": "Window membership is a ball query on the arguments; pure.",
    "C15": "k-nearest results versus brute force is an input-quantified numerical comparison; pure.",
    "C16": "Hull membership and grid projection are deterministic geometry (qhull) and interpolation of the arguments; pure.",
    "C17": "Modular arithmetic on four numbers and an array; pure.",
    "C18": "array <-> xarray <-> DataFrame repackaging; pure.",
}

CHECKS = {
    "C12": {
        "category": "exploration",
        "text": "Seeded search over workloads x task schedules x faults: verde's real dask.delayed graphs / client submissions are executed by a simulated executor (baton-passed real threads pre-empted at every verde function entry; uniform and PCT strategies; 1-8 workers; worker kill + retry, duplicate execution, pickling transport; lazy scores computed all at once, one by one in any order, twice, or merged with a second evaluation that differs only in estimator, data or splits; the caller re-parameterising its estimator after the call; concurrent callers sharing one estimator; futures collected in completion order through simulated as_completed/wait), and every returned score is compared with an independent reference model (own splits from eleven kinds of cross-validator incl. buffer-reusing and instance-seeded ones, fresh estimator per split fitted on training rows only, numpy metrics incl. unnormalised and bare-callable scorers), serial == delayed == client, re-execution idempotence, input estimator untouched, SplineCV scores / argmax over the (mindist, damping) grid / refit with weights and force_coords, train_test_split alignment/partition/blocks. Thorough tier adds crash-point enumeration (every yield point of a small lazy cross-validation as the kill instant). Sampling, not enumeration, of schedules: a clean batch is evidence, not proof; that is the right level because the schedule space of 5-26 tasks x ~100 yield points each is far beyond enumeration.",
        "design_ref": "DESIGN.md section 3 (C12), section 2",
        "note": "Trusted: fit/predict of the individual estimators (C01-C04), dask's graph construction, the simulator itself (determinism self-test: bin/check C12 --selftest determinism). Stubbed: dask executors and distributed.Client. Pre-emption only at verde function entries; BLAS single-threaded.",
        "technique": "deterministic simulation: seeded baton scheduler over dask.delayed/client tasks with kill/retry, duplicate and pickling faults, refinement against a reference model",
    },
    "C19": {
        "category": "fault_enumeration",
        "text": "Every generated Surfer file (2-7 x 2-8, occasionally up to 60 x 80; nine number formats; blanks; CRLF; float64/float32) is loaded through a simulated disk/stream by str path, pathlib path and open handle; the in-flight fault position is enumerated exhaustively over every read call of the load x {I/O error, early EOF (torn/lost write), interrupt} plus open() failures and interrupts at each verde call point, stored-byte faults (truncation, flipped/dropped/duplicated characters, dropped/duplicated/swapped lines, re-wrapped rows, ragged rows, every single header-field corruption) are drawn from the seed, multi-operation histories re-use half-consumed handles. An independent parser classifies the delivered bytes MUST-LOAD / MUST-REFUSE / EITHER (wrapped-row layouts, grey bands, non-strict tokens) and the result is compared cell by cell with coordinates, blanks and attributes; the disk's handle table must be empty after every operation. File contents are sampled, in-flight fault positions are enumerated.",
        "design_ref": "DESIGN.md section 3 (C19), section 2.6",
        "note": "Trusted: numpy.loadtxt and xarray (real code, reading from the stub); the reference parser's strict decimal grammar (tokens outside it are EITHER, never a demand). Stubbed: files/open/file objects (SimDisk/SimFile) via the module-level open name in verde.io.",
        "technique": "deterministic simulation of the file system and stream: exhaustive in-flight fault positions per file, seeded stored-byte corruption, reference parser as oracle",
    },
    "C20": {
        "category": "exploration",
        "text": "Seeded histories of 6-16 operations over a universe of live estimator objects, a pool of read-only or writable datasets (sometimes all of one size, sometimes large, C/Fortran/transposed layouts) and the process-global numpy RNG: fits on changing datasets, rejected fits (one planted inconsistency incl. a third-coordinate mismatch), fits interrupted at an arbitrary verde call (KeyboardInterrupt/MemoryError model), predict/filter/grid/profile/scatter/score each followed by the same call on other points of the same shape, the caller overwriting the arrays it was given back, verbatim repeats, clone (also fitted, to show independence), set_params(**get_params()), set_params(<new value>) followed by a refit, seeded random calls and re-used splitter objects under global-RNG perturbation, stateless public functions with array-valued regions/spacings/centres, ~50 must-reject calls. After every operation: arguments byte-identical, repeat == first, history-laden object == fresh model fitted to the last completed dataset (VectorSpline2D's documented memory modelled, not read back), earlier results unaliased, not-fitted and inconsistent inputs raise. Thorough tier enumerates the interrupt position over the call points of a fit. Histories are sampled.",
        "design_ref": "DESIGN.md section 3 (C20), section 2.5",
        "note": "Trusted: numpy/scipy/sklearn numerics; the fresh-instance reference model uses the same estimator classes on a new object. The interrupt model raises only at verde function entries.",
        "technique": "deterministic simulation of call histories with interrupt/rejection fault injection and global-RNG perturbation, checked against a history-free reference model",
    },
    "C06": {
        "category": "exploration",
        "text": "History dimension of C06 only: seeded histories (fit and filter on changing datasets, interrupted fits landing between steps, fits on NaN-poisoned data rejected by whichever step first cannot digest it, predict, clone) on ONE composite (Chain/Vector/nested, 1-4 steps, unique or repeated step names) are checked operation by operation against a small reference model that threads (coordinates, data, weights) through fresh clones of the steps without using Chain/Vector code: composite prediction == sum of the parts, every step taken out of the composite == the model's clone fitted on what the previous step returned, filter's output contract, prediction + residual == data, composite raises iff the parts raise, and for separable multi-component composites component i == the scalar composite on data[i], weights[i] alone. Inputs/configurations are sampled only incidentally; the statement's relations serve as per-operation invariants. Thorough tier enumerates interrupt positions.",
        "design_ref": "DESIGN.md section 3 (C06)",
        "note": "Trusted: the individual steps' fit/predict/filter (their own properties); tolerance 1e-9 of data scale (calibrated: bit-identical). Only the history/interrupt dimension is decided by this technique.",
        "technique": "deterministic simulation of call histories on a composite with interrupt injection between steps, refinement against a reference chain model",
    },
}


def main():
    built = [p for p in ("C06", "C12", "C19", "C20") if os.path.exists(os.path.join(HERE, "sim", "props", p.lower() + ".py"))]
    checks = []
    for p in built:
        c = CHECKS[p]
        checks.append(
            {
                "property_id": p,
                "quick_cmd": f"bin/check {p} --tier quick",
                "thorough_cmd": f"bin/check {p} --tier thorough",
                "evidence_file": f"/verif/evidence/{p}.json",
                "replay_cmd_template": f"bin/check {p} --replay {{path}}",
                "engine": "sim",
                "level_claimed": {"category": c["category"], "text": c["text"], "design_ref": c["design_ref"]},
                "level_note": c["note"],
                "technique": c["technique"],
            }
        )
    na = [{"property_id": k, "reason": v} for k, v in sorted(NA.items())]
    for p in ("C06", "C12", "C19", "C20"):
        if p not in built:
            na.append({"property_id": p, "reason": "simulation target (see DESIGN.md section 3); its check is not built yet in this commit"})
    na.sort(key=lambda x: x["property_id"])
    fixes = []
    kf = os.path.join(HERE, "known_findings.json")
    if os.path.exists(kf):
        fixes = [f["commit"] for f in json.load(open(kf)).get("fixed", [])]
    doc = {
        "version": 1,
        "setup_cmd": "bin/setup",
        "hooks": {
            "guard": "FATIANDO_VERDE_VERIF",
            "enable": "none needed: no hook was added to /repo; every seam already exists (scheduler=/dask.config, client=, file-object argument, module-level open name in verde.io, random_state=, sys.settrace). Checks import verde from /repo's working tree.",
            "baseline_off_cmd": "cd /repo && /venv/bin/python -m pytest -ra -q -p no:cacheprovider --timeout=900 --continue-on-collection-errors verde",
            "source_commits": [],
            "add_only": True,
        },
        "engines": [
            {
                "name": "sim",
                "path": "/verif/sim",
                "serves_properties": built,
                "kind_free_text": "purpose-built deterministic simulator: choice tape (one seed decides workload, schedule and faults), baton-passing thread scheduler with settrace pre-emption points, simulated dask executor/client, simulated disk/streams, interrupt injector, tape shrinker, replay files",
            }
        ],
        "checks": checks,
        "notes": "Technique: deterministic simulation with fault injection. Four of twenty properties meet a scheduler, stream, RNG or call history and are claimed; sixteen are pure functions of their inputs and are listed not_applicable (DESIGN.md sections 0, 1, 4). Genuine defects repaired in /repo by fix: commits are listed in known_findings.json ('fixed'): "
        + ", ".join(fixes),
        "not_applicable": na,
    }
    with open(os.path.join(HERE, "MANIFEST.json"), "w") as f:
        json.dump(doc, f, indent=1)
        f.write("\n")
    print("MANIFEST.json written:", [c["property_id"] for c in checks], "claimed;", len(na), "not applicable")


if __name__ == "__main__":
    main()
