#!/usr/bin/env python3
"""Run /repo's pinned suite (guard OFF) and compare with BASELINE.json's stable_pass list."""
import json
import os
import subprocess
import sys
import tempfile
import xml.etree.ElementTree as ET

base = json.load(open("/root/.vp/BASELINE.json"))
want = set(base["stable_pass"])
out = tempfile.mktemp(suffix=".xml")
env = dict(os.environ)
env.pop("FATIANDO_VERDE_VERIF", None)
cmd = ["/venv/bin/python", "-m", "pytest", "-q", "-p", "no:cacheprovider", "--timeout=900", "--continue-on-collection-errors", f"--junitxml={out}"] + sys.argv[1:]
subprocess.run(cmd, cwd="/repo", env=env, stdout=subprocess.DEVNULL, stderr=subprocess.DEVNULL)
passed = set()
for tc in ET.parse(out).getroot().iter("testcase"):
    if not any(ch.tag in ("failure", "error", "skipped") for ch in tc):
        passed.add(f"{tc.get('classname')}::{tc.get('name')}")
os.unlink(out)
missing = sorted(want - passed)
print(f"baseline stable_pass={len(want)} passed_now={len(passed)} baseline_tests_not_passing={len(missing)} newly_passing={len(passed - want)}")
for m in missing:
    print("  MISSING", m)
sys.exit(1 if missing else 0)
